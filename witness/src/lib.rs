//! Compile-fail witnesses (with compiling twins) for the type-level remainder of the closed-world
//! assumptions the MIR rules rely on (DESIGN §3.4). They are run with
//! `cargo +nightly test --doc --offline` (error codes are only honoured on nightly) as an external
//! user of the crate would compile against it. Each witness has a twin that differs only in the
//! offending line and must compile, so that a wrong path cannot make a witness pass vacuously.

/// W1 (C02/C04): the soft-delete flag of a stored entry is not reachable from outside the crate.
/// ```compile_fail,E0616
/// use tinylfu_cached::cache::cached::CacheD;
/// use tinylfu_cached::cache::config::ConfigBuilder;
/// let cached: CacheD<&str, &str> = CacheD::new(ConfigBuilder::new(100, 10, 100).build());
/// let entry = cached.get_ref(&"k");
/// let _hidden = entry.map(|e| e.value().is_soft_deleted);
/// ```
/// twin:
/// ```no_run
/// use tinylfu_cached::cache::cached::CacheD;
/// use tinylfu_cached::cache::config::ConfigBuilder;
/// let cached: CacheD<&str, &str> = CacheD::new(ConfigBuilder::new(100, 10, 100).build());
/// let entry = cached.get_ref(&"k");
/// let _id = entry.map(|e| e.value().key_id());
/// ```
pub struct W1SoftDeletePrivate;

/// W2 (C02/C08): the in-place mutator of a stored entry is crate-private.
/// ```compile_fail,E0624
/// use tinylfu_cached::cache::clock::SystemClock;
/// use tinylfu_cached::cache::store::stored_value::StoredValue;
/// fn touch(entry: &mut StoredValue<&str>) {
///     let _ = entry.update(Some("other"), None, false, &SystemClock::boxed());
/// }
/// ```
/// twin:
/// ```no_run
/// use tinylfu_cached::cache::store::stored_value::StoredValue;
/// fn touch(entry: &mut StoredValue<&str>) {
///     let _ = entry.expire_after();
/// }
/// ```
pub struct W2EntryUpdatePrivate;

/// W3 (C02): get_ref hands out shared references only.
/// ```compile_fail,E0308
/// use tinylfu_cached::cache::cached::CacheD;
/// use tinylfu_cached::cache::config::ConfigBuilder;
/// use tinylfu_cached::cache::store::stored_value::StoredValue;
/// let cached: CacheD<&str, &str> = CacheD::new(ConfigBuilder::new(100, 10, 100).build());
/// let entry = cached.get_ref(&"k").unwrap();
/// let _value: &mut StoredValue<&str> = entry.value();
/// ```
/// twin:
/// ```no_run
/// use tinylfu_cached::cache::cached::CacheD;
/// use tinylfu_cached::cache::config::ConfigBuilder;
/// use tinylfu_cached::cache::store::stored_value::StoredValue;
/// let cached: CacheD<&str, &str> = CacheD::new(ConfigBuilder::new(100, 10, 100).build());
/// let entry = cached.get_ref(&"k").unwrap();
/// let _value: &StoredValue<&str> = entry.value();
/// ```
pub struct W3GetRefShared;

/// W4 (C11/C12): users cannot complete an acknowledgement themselves.
/// ```compile_fail,E0624
/// use tinylfu_cached::cache::cached::CacheD;
/// use tinylfu_cached::cache::command::CommandStatus;
/// use tinylfu_cached::cache::config::ConfigBuilder;
/// let cached: CacheD<&str, &str> = CacheD::new(ConfigBuilder::new(100, 10, 100).build());
/// let acknowledgement = cached.put("k", "v").unwrap();
/// acknowledgement.done(CommandStatus::Accepted);
/// ```
/// twin:
/// ```no_run
/// use tinylfu_cached::cache::cached::CacheD;
/// use tinylfu_cached::cache::config::ConfigBuilder;
/// let cached: CacheD<&str, &str> = CacheD::new(ConfigBuilder::new(100, 10, 100).build());
/// let acknowledgement = cached.put("k", "v").unwrap();
/// let _handle = acknowledgement.handle();
/// ```
pub struct W4DonePrivate;

/// W5 (C01/C03/C05): the admission policy, the weight accounting and the store are unreachable modules / types.
/// ```compile_fail,E0603
/// use tinylfu_cached::cache::policy::admission_policy::AdmissionPolicy;
/// ```
/// ```compile_fail,E0603
/// use tinylfu_cached::cache::expiration::TTLTicker;
/// ```
/// ```compile_fail,E0603
/// use tinylfu_cached::cache::store::Store;
/// ```
/// twin:
/// ```no_run
/// use tinylfu_cached::cache::store::stored_value::StoredValue;
/// use tinylfu_cached::cache::store::key_value_ref::KeyValueRef;
/// ```
pub struct W5InternalsUnreachable;

/// W6 (C13/C11): the command executor and the raw send path are not reachable: users can only queue through the API.
/// ```compile_fail,E0603
/// use tinylfu_cached::cache::command::command_executor::CommandExecutor;
/// ```
/// ```compile_fail,E0603
/// use tinylfu_cached::cache::command::CommandType;
/// ```
/// twin:
/// ```no_run
/// use tinylfu_cached::cache::command::command_executor::CommandSendResult;
/// use tinylfu_cached::cache::command::CommandStatus;
/// ```
pub struct W6ExecutorUnreachable;
