#!/bin/sh
# Builds the analysis driver offline (nightly + rustc-dev are pre-installed) and warms nothing else.
set -e
cd "$(dirname "$0")/driver"
CARGO_NET_OFFLINE=true cargo +nightly build --offline 2>&1 | tail -3
test -x target/debug/cachedlint
echo "setup ok"
