#!/bin/bash
# usage: seed_process.sh <id> <worktree>: verify the three directions, then run all checks on the worktree
id=$1; wt=$2
echo "######## $id ($wt)"
/verif/tools/seed_verify.sh $id $wt 2>&1 | tail -9
echo "---- checks"
python3 /verif/tools/seed_check.py $wt 2>&1 | grep -E "VIOLATIONS|^    R" | cut -c1-220
