#!/usr/bin/env python3
"""usage: seed_check.py <repo-dir> [props...] : one extraction of <repo-dir>, then every property's rules; prints new violations"""
import os, sys
V = os.path.dirname(os.path.dirname(os.path.abspath(__file__)))
sys.path.insert(0, os.path.join(V, "rules"))
import engine
d = sys.argv[1]
props = sys.argv[2:] or ["C%02d" % i for i in range(1, 19)]
facts = engine.extract(d)
for p in props:
    obl, new, listed = engine.run_property(p, "quick", facts_path=facts, quiet=True, write_evidence=False)
    if new:
        print(p, "VIOLATIONS:")
        for o in new:
            print("    %s @ %s\n        %s" % (o["key"], o["where"], o["detail"][:300]))
os.remove(facts)
