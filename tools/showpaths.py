#!/usr/bin/env python3
"""debug: showpaths.py <facts.json> <fn substring> [stop substrings,comma] [depth]"""
import sys
sys.path.insert(0, '/verif/rules')
from core import Facts, fmt
from sym import ipaths
F = Facts(sys.argv[1])
stops = [s for s in (sys.argv[3].split(",") if len(sys.argv) > 3 else []) if s]
depth = int(sys.argv[4]) if len(sys.argv) > 4 else 3
for n, f in F.fns.items():
    if sys.argv[2] in n and (f.kind != "Closure" or "closure" in sys.argv[2]):
        ps = ipaths(F, f, stop=lambda x: any(s in x for s in stops), depth=depth)
        print("==", n, len(ps), "paths")
        for p in ps:
            print("  PATH", p.trace[:30])
            for a in p.atoms:
                print("     atom#%d" % a[4], a[0], fmt(a[1])[:110], a[2])
            for e in p.events:
                if not e.log:
                    print("     call#%d" % e.seq, e.callee[-60:], [fmt(x)[:50] for x in e.args], "@%s:%d" % (e.fn.name.split("::")[-1], e.bb))
            for tg, v, w in p.stores:
                print("     store", fmt(tg)[:60], ":=", fmt(v)[:80])
            print("     ret ", fmt(p.ret)[:150])
