#!/usr/bin/env python3
"""Re-runs every seeded change: the tree of the seed's base commit (meta.json base_commit, default 2928bef) is
materialised under .work/scratch with `git archive`, the patch applied, all 18 rule sets run (one extraction).
Violations already present in the unpatched base tree are subtracted, so what is printed is what the *change*
introduces. Never touches /repo's working tree."""
import glob, json, os, shutil, subprocess, sys, uuid
V = os.path.dirname(os.path.dirname(os.path.abspath(__file__)))
sys.path.insert(0, os.path.join(V, "rules"))
import engine
ALL = ["C%02d" % i for i in range(1, 19)]
only = sys.argv[1:]
_base_cache = {}


def materialise(commit):
    sc = os.path.join(engine.WORK, "scratch", "seedbase-%s-%s" % (commit, uuid.uuid4().hex[:6]))
    os.makedirs(sc, exist_ok=True)
    p1 = subprocess.Popen(["git", "-C", engine.REPO, "archive", commit], stdout=subprocess.PIPE)
    subprocess.check_call(["tar", "-x", "-C", sc], stdin=p1.stdout)
    p1.wait()
    return sc


def violations(d):
    facts = engine.extract(d)
    out = {}
    for p in ALL:
        obl, new, listed = engine.run_property(p, "quick", facts_path=facts, quiet=True, write_evidence=False)
        if new:
            out[p] = {o["key"] for o in new}
    os.remove(facts)
    return out


def base_violations(commit):
    if commit not in _base_cache:
        sc = materialise(commit)
        try:
            _base_cache[commit] = violations(sc)
        finally:
            shutil.rmtree(sc, ignore_errors=True)
    return _base_cache[commit]


def one(d):
    sid = os.path.basename(d)
    meta = json.load(open(os.path.join(d, "meta.json")))
    base = meta.get("base_commit", "2928bef")
    sc = materialise(base)
    r = subprocess.run(["patch", "-p1", "-s", "-i", os.path.join(d, "patch.diff")], cwd=sc, stdout=subprocess.PIPE, stderr=subprocess.STDOUT, text=True)
    if r.returncode != 0:
        shutil.rmtree(sc, ignore_errors=True)
        return sid, False, "%-52s patch does not apply on %s: %s" % (sid, base, r.stdout[-200:])
    try:
        got = violations(sc)
    finally:
        shutil.rmtree(sc, ignore_errors=True)
    basev = base_violations(base)
    caught = {p: sorted(ks - basev.get(p, set())) for p, ks in got.items() if ks - basev.get(p, set())}
    target = meta["breaks_property"]
    status = "caught by its own property" if target in caught else ("MISSED by %s" % target)
    out = "%-52s [base %s] %s; all: %s" % (sid, base, status, {k: len(v) for k, v in caught.items()})
    for k in caught.get(target, [])[:3]:
        out += "\n        %s" % k
    return sid, target in caught, out


if __name__ == "__main__":
    from concurrent.futures import ProcessPoolExecutor
    ds = [d for d in sorted(glob.glob(os.path.join(V, "seeded", "*"))) if not only or any(o in os.path.basename(d) for o in only)]
    missed = []
    with ProcessPoolExecutor(max_workers=10) as ex:
        for sid, ok, out in ex.map(one, ds):
            print(out)
            sys.stdout.flush()
            if not ok:
                missed.append(sid)
    sys.exit(1 if missed else 0)
