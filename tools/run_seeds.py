#!/usr/bin/env python3
"""Applies every seeded change (seeded/<id>/patch.diff) to a scratch copy of /repo's working tree under
.work/scratch, runs all 18 rule sets on it (one extraction), prints which checks report a new violation,
and compares with meta.json's breaks_property. Never touches /repo."""
import glob, json, os, shutil, subprocess, sys, uuid
V = os.path.dirname(os.path.dirname(os.path.abspath(__file__)))
sys.path.insert(0, os.path.join(V, "rules"))
import engine
only = sys.argv[1:]
missed = []
for d in sorted(glob.glob(os.path.join(V, "seeded", "*"))):
    sid = os.path.basename(d)
    if only and not any(o in sid for o in only):
        continue
    meta = json.load(open(os.path.join(d, "meta.json")))
    sc = os.path.join(engine.WORK, "scratch", "seed-%s-%s" % (sid, uuid.uuid4().hex[:6]))
    os.makedirs(os.path.dirname(sc), exist_ok=True)
    subprocess.check_call(["rsync", "-a", "--exclude", "target", "--exclude", ".git", engine.REPO + "/", sc + "/"])
    r = subprocess.run(["patch", "-p1", "-s", "-i", os.path.join(d, "patch.diff")], cwd=sc, stdout=subprocess.PIPE, stderr=subprocess.STDOUT, text=True)
    if r.returncode != 0:
        print("%-50s patch does not apply: %s" % (sid, r.stdout[-200:]))
        shutil.rmtree(sc, ignore_errors=True)
        continue
    try:
        facts = engine.extract(sc)
        caught = {}
        for p in ["C%02d" % i for i in range(1, 19)]:
            obl, new, listed = engine.run_property(p, "quick", facts_path=facts, quiet=True, write_evidence=False)
            if new:
                caught[p] = [o["key"] for o in new]
        os.remove(facts)
    finally:
        shutil.rmtree(sc, ignore_errors=True)
    target = meta["breaks_property"]
    status = "caught by its own property" if target in caught else ("MISSED by %s" % target)
    if target not in caught:
        missed.append(sid)
    print("%-50s %s; all: %s" % (sid, status, {k: len(v) for k, v in caught.items()}))
    for k in caught.get(target, [])[:3]:
        print("        %s" % k)
sys.exit(1 if missed else 0)
