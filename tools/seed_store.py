#!/usr/bin/env python3
"""usage: seed_store.py <Vxx-slug> <Cxx> <worktree> <first_run> "<needs>" "<caught_by;...>" : copies a confirmed seed into seeded/"""
import json, os, shutil, sys
sid, prop, wt, first, needs, caught = sys.argv[1:7]
d = os.path.join("/verif/seeded", sid)
os.makedirs(d, exist_ok=True)
for f in ("patch.diff", "seed_demo.rs", "notes.md"):
    shutil.copyfile(os.path.join(wt, "_seed", f), os.path.join(d, f))
meta = {"id": sid, "breaks_property": prop, "needs_to_manifest": needs, "base_commit": ("8f7865a" if sid[0]=="Z" else "df3b2ec"), "first_run": first,
        "origin": "%s wave: written by an independent sub-agent given the property text, a scratch worktree of /repo and the list of mechanisms earlier seeds for that property had used (to force a different one)" % {"V": "fourth", "W": "fifth", "X": "sixth", "Y": "seventh", "Z": "eighth"}.get(sid[0], "later"),
        "confirmed_by_me": {"suite_with_change": "299 passed", "demo_with_change": "FAILED", "demo_without_change": "ok", "script": "tools/seed_verify.sh"},
        "checks_run": "tools/seed_check.py on the worktree; regression: tools/run_seeds.py", "caught_by": [c.strip() for c in caught.split(";")]}
json.dump(meta, open(os.path.join(d, "meta.json"), "w"), indent=1)
print("stored", d)
