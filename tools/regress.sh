#!/bin/bash
# development regression: all four corpora against the current rules (facts cached by source content)
cd /verif
export VERIF_DEV_FACTCACHE=1
mkdir -p .work
echo "== /repo"; for i in $(seq -w 1 18); do ./check C$i | tail -1; done | grep -v " 0 new violation" ; echo "   (lines above = checks that alarm on /repo)"
echo "== mutants"; python3 rules/mutants.py all 2>&1 | grep -v "^      " > .work/mut_all.log; grep -E "missed=\[.+\]|FALSE|skipped|compile|Traceback|Error" .work/mut_all.log; echo "   $(wc -l < .work/mut_all.log) mutants run"
echo "== seeds"; python3 tools/run_seeds.py > .work/seeds.log 2>&1; grep -E "MISSED|apply|Traceback|Error" .work/seeds.log; echo "   $(grep -c 'caught by its own' .work/seeds.log) seeds caught by their own property"
echo "== refactors"; REFACTS_DIR=/verif/.work/refacts python3 tools/run_patches.py 8f7865a refactors/*.diff refactors2/*.diff refactors3/*.diff refactors4/*.diff refactors5/*.diff refactors6/*.diff refactors7/*.diff refactors8/*.diff refactors9/*.diff > .work/refactor.log 2>&1; grep -E "ALARMS|Traceback|Error" .work/refactor.log | tr '\n' ' '; echo; echo "   $(grep -c quiet .work/refactor.log) of $(ls refactors/*.diff refactors2/*.diff refactors3/*.diff refactors4/*.diff refactors5/*.diff refactors6/*.diff refactors7/*.diff refactors8/*.diff refactors9/*.diff | wc -l) refactors quiet"
