#!/usr/bin/env python3
"""usage: run_patches.py <base-commit> <patch.diff>... : applies each patch to a scratch copy of <base-commit> and runs all
18 rule sets; prints the new violations (used for behaviour-preserving refactors: every line printed is a false alarm)"""
import os, shutil, subprocess, sys, uuid
V = os.path.dirname(os.path.dirname(os.path.abspath(__file__)))
sys.path.insert(0, os.path.join(V, "rules"))
import engine
base = sys.argv[1]
ALL = ["C%02d" % i for i in range(1, 19)]
if len(sys.argv) > 3:
    # one process per patch, 14 at a time
    from concurrent.futures import ThreadPoolExecutor
    def one(patch):
        return subprocess.run([sys.executable, os.path.abspath(__file__), base, patch], stdout=subprocess.PIPE, stderr=subprocess.STDOUT, text=True).stdout
    with ThreadPoolExecutor(14) as ex:
        for out in ex.map(one, sys.argv[2:]):
            sys.stdout.write(out)
            sys.stdout.flush()
    sys.exit(0)
keep = os.environ.get("REFACTS_DIR")
for patch in sys.argv[2:]:
    sc = os.path.join(engine.WORK, "scratch", "patch-%s" % uuid.uuid4().hex[:8])
    os.makedirs(sc, exist_ok=True)
    p1 = subprocess.Popen(["git", "-C", engine.REPO, "archive", base], stdout=subprocess.PIPE)
    subprocess.check_call(["tar", "-x", "-C", sc], stdin=p1.stdout)
    p1.wait()
    r = subprocess.run(["patch", "-p1", "-s", "-i", os.path.abspath(patch)], cwd=sc, stdout=subprocess.PIPE, stderr=subprocess.STDOUT, text=True)
    if r.returncode != 0:
        print("%s: does not apply: %s" % (patch, r.stdout[-200:]))
        shutil.rmtree(sc, ignore_errors=True)
        continue
    try:
        facts = engine.extract(sc)
        out = {}
        if keep:
            os.makedirs(keep, exist_ok=True)
            shutil.copyfile(facts, os.path.join(keep, os.path.splitext(os.path.basename(patch))[0] + ".json"))
        for p in ALL:
            try:
                obl, new, listed = engine.run_property(p, "quick", facts_path=facts, quiet=True, write_evidence=False)
            except Exception as ex:
                import traceback
                out[p] = [("CRASH", traceback.format_exc()[-300:].replace("\n", " | "))]
                continue
            if new:
                out[p] = [(o["key"], o["detail"][:160]) for o in new]
        os.remove(facts)
    finally:
        shutil.rmtree(sc, ignore_errors=True)
    print("%s: %s" % (patch, "quiet" if not out else "ALARMS"))
    for p, ks in out.items():
        for k, d in ks:
            print("    %s %s\n        %s" % (p, k, d))
