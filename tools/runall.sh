#!/bin/bash
# usage: runall.sh <facts.json|repo>  : runs all 18 and prints non-ok lines
cd /verif
for i in $(seq -w 1 18); do
  if [ "$1" = "repo" ]; then VERIF_DEV_FACTCACHE=1 ./check C$i --tier quick 2>&1 | grep -v "^  ok\|^PASS" | cut -c1-400 | grep -v "0 new violation" | head -12
  else ./check C$i --tier quick --facts $1 2>&1 | grep -v "^  ok\|^PASS" | cut -c1-400 | grep -v "0 new violation" | head -12; fi
done
