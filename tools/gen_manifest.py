#!/usr/bin/env python3
"""Regenerates MANIFEST.json from the rule modules present (keeps it valid at all times)."""
import importlib, json, os, sys
V = os.path.dirname(os.path.dirname(os.path.abspath(__file__)))
sys.path.insert(0, os.path.join(V, "rules"))
props = [json.loads(l) for l in open(os.path.join(V, "properties.jsonl"))]
NA = json.load(open(os.path.join(V, "not_applicable.json"))) if os.path.exists(os.path.join(V, "not_applicable.json")) else {}
checks, na = [], []
for p in props:
    pid = p["id"]
    mp = os.path.join(V, "rules", pid.lower() + ".py")
    if os.path.exists(mp) and pid not in NA:
        m = importlib.import_module(pid.lower())
        checks.append({
            "property_id": pid,
            "quick_cmd": "./check %s --tier quick" % pid,
            "thorough_cmd": "./check %s --tier thorough" % pid,
            "evidence_file": "/verif/evidence/%s.json" % pid,
            "replay_cmd_template": "cat {path}",
            "engine": "cachedlint",
            "level_claimed": {"category": getattr(m, "LEVEL", "other"), "text": getattr(m, "EXPLANATION", ""), "design_ref": "DESIGN.md section 4 " + pid},
            "level_note": "; ".join(getattr(m, "ASSUMPTIONS", []) + ["trusted base: rustc front end and MIR construction, dependency models of DESIGN.md 3.7"]),
            "technique": getattr(m, "TECHNIQUE", "static analysis: custom MIR rules (rustc_private driver + dataflow/dominance/call-graph rule engine)"),
        })
    else:
        na.append({"property_id": pid, "reason": NA.get(pid, "rule module not yet written in this round (static rules planned in DESIGN.md section 4)")})
man = {
    "version": 1,
    "setup_cmd": "./setup.sh",
    "hooks": {"guard": "cached_verif_unused", "enable": "none: the static analysis needs no source hooks (cfg cached_verif_unused is never set)",
              "baseline_off_cmd": "cd /repo && cargo test --workspace --no-fail-fast --offline", "source_commits": [], "add_only": True},
    "engines": [{"name": "cachedlint", "path": "driver/", "serves_properties": [c["property_id"] for c in checks],
                 "kind_free_text": "rustc_private MIR fact extractor (Rust, nightly) + python rule engine (rules/): dominance, path, dataflow, lock-order, who-may-call and decision-table rules over the type-checked program"}],
    "checks": checks,
    "not_applicable": na,
    "notes": "Static analysis only: every verdict is computed from /repo's current MIR; nothing executes the cache. Genuine defects repaired in /repo by fix: commits are listed in known_findings.json (fixed); open ones are reported as KNOWN-FINDING.",
}
json.dump(man, open(os.path.join(V, "MANIFEST.json"), "w"), indent=1)
print("checks:", [c["property_id"] for c in checks], "na:", [n["property_id"] for n in na])
