#!/usr/bin/env python3
"""Mutation campaign (development tool, not a registered check): classic operators applied line by line to /repo's non-test
source; a mutant that still compiles and passes the crate's own tests is run through all 18 rule sets.  Survivors of both are
printed for inspection (equivalent mutants, or gaps in the rules).
usage: mutcamp.py <n-mutants> [seed] [file-substring]"""
import os, random, re, shutil, subprocess, sys, json, hashlib
from concurrent.futures import ProcessPoolExecutor
V = os.path.dirname(os.path.dirname(os.path.abspath(__file__)))
sys.path.insert(0, os.path.join(V, "rules"))
REPO = "/repo"
ROOT = "/tmp/mc"
NW = 8
OPS = [
    (r"(?<![<>=!-])<=(?!=)", "<"), (r"(?<![<>=!-])>=(?!=)", ">"), (r"(?<![<>=!&-])<(?![<=])(?= )", "<="), (r"(?<![<>=!-])>(?![>=])(?= )(?<= >)", ">="),
    (r"==", "!="), (r"!=", "=="), (r" \+ ", " - "), (r" - ", " + "), (r" \+= ", " -= "), (r" -= ", " += "), (r" \* ", " / "), (r" / ", " * "),
    (r"&&", "||"), (r"\|\|", "&&"), (r"\btrue\b", "false"), (r"\bfalse\b", "true"), (r"!self\.", "self."), (r"if !", "if "),
    (r"\b0\b", "1"), (r"\b1\b", "0"), (r"\b1\b", "2"), (r"Ordering::AcqRel", "Ordering::Relaxed"), (r"Ordering::Acquire", "Ordering::Relaxed"), (r"Ordering::Release", "Ordering::Relaxed"),
    (r"\.max\(", ".min("), (r"\.min\(", ".max("), (r"\.is_some\(\)", ".is_none()"), (r"\.is_none\(\)", ".is_some()"),
    ("DELETE", None), ("DELETE", None), ("SWAP", None), ("SWAP", None), ("GUARD", None), ("NEGATE", None),
]


def source_lines():
    out = []
    for dp, dn, fn in os.walk(os.path.join(REPO, "src")):
        for f in fn:
            if not f.endswith(".rs") or "proxy" in dp:
                continue
            p = os.path.join(dp, f)
            lines = open(p).read().split("\n")
            for i, l in enumerate(lines):
                if l.strip().startswith("#[cfg(test)]"):
                    break
                s = l.strip()
                if not s or s.startswith("//") or s.startswith("#[") or s.startswith("use ") or any(m in s for m in ("debug!(", "info!(", "warn!(", "error!(", "assert")):
                    continue
                out.append((os.path.relpath(p, REPO), i, l))
    return out


def gen(n, seed, sub):
    rnd = random.Random(seed)
    lines = [x for x in source_lines() if not sub or sub in x[0]]
    muts, seen = [], set()
    tries = 0
    while len(muts) < n and tries < n * 200:
        tries += 1
        f, i, l = rnd.choice(lines)
        pat, rep = rnd.choice(OPS)
        if pat == "DELETE":
            s = l.strip()
            if not (s.endswith(";") and "(" in s and not s.startswith(("let ", "return", "pub ", "fn ", "const ", "static ", "type ", "break", "continue")) and "=" not in s.split("(")[0]):
                continue
            new = l[: len(l) - len(l.lstrip())] + "// " + s
        elif pat == "SWAP":
            # exchange two adjacent simple statements (same indentation, both end with ';', neither a `let`)
            nxt = [x for x in lines if x[0] == f and x[1] == i + 1]
            if not nxt:
                continue
            l2 = nxt[0][2]
            ind = lambda z: len(z) - len(z.lstrip())
            simple = lambda z: z.strip().endswith(";") and not z.strip().startswith(("let ", "return", "break", "continue", "}", "pub ", "const ")) and z.count("(") == z.count(")")
            if not (simple(l) and simple(l2) and ind(l) == ind(l2)) or l.strip() == l2.strip():
                continue
            new = l2 + "\n" + l
            key = (f, i, "SWAP")
            if key in seen:
                continue
            seen.add(key)
            muts.append({"file": f, "line": i, "old": l, "new": new, "span": 2, "old2": l2})
            continue
        elif pat == "GUARD":
            if not re.match(r"^\s*if .*\{ ?return .*; ?\}\s*$", l):
                continue
            new = l[: len(l) - len(l.lstrip())] + "// " + l.strip()
        elif pat == "NEGATE":
            m = re.match(r"^(\s*)(if|while) (?!let )(.*) \{\s*$", l)
            if not m or m.group(3).startswith("!("):
                continue
            new = "%s%s !(%s) {" % (m.group(1), m.group(2), m.group(3))
        else:
            ms = list(re.finditer(pat, l))
            if not ms:
                continue
            m = rnd.choice(ms)
            new = l[:m.start()] + rep + l[m.end():]
        key = (f, i, new)
        if key in seen or new == l:
            continue
        seen.add(key)
        muts.append({"file": f, "line": i, "old": l, "new": new})
    return muts


def run(args):
    k, m = args
    w = os.path.join(ROOT, "p%d" % os.getpid())          # one scratch tree (and cargo target) per worker process
    os.makedirs(w, exist_ok=True)
    # sync sources
    subprocess.run(["rsync", "-a", "--delete", "--exclude", "target", "--exclude", ".git", REPO + "/", w + "/"], check=True)
    p = os.path.join(w, m["file"])
    lines = open(p).read().split("\n")
    if lines[m["line"]] != m["old"]:
        return dict(m, status="stale")
    lines[m["line"]: m["line"] + m.get("span", 1)] = [m["new"]]
    open(p, "w").write("\n".join(lines))
    env = dict(os.environ, CARGO_NET_OFFLINE="true", CARGO_TARGET_DIR=os.path.join(w, "target"))
    # own process group, killed as a whole on timeout: a mutant that hangs the tests leaves a spinning test binary behind
    # when only cargo is killed (this cost most of a day's CPU once)
    import signal
    pr = subprocess.Popen(["cargo", "test", "--offline", "--lib", "--test", "cached_integration_test", "--test", "cached_concurrency_integration_test", "-q"],
                          cwd=w, env=env, stdout=subprocess.PIPE, stderr=subprocess.STDOUT, text=True, start_new_session=True)
    try:
        out_, _ = pr.communicate(timeout=240)
    except subprocess.TimeoutExpired:
        try:
            os.killpg(pr.pid, signal.SIGKILL)
        except ProcessLookupError:
            pass
        pr.wait()
        return dict(m, status="killed-timeout")
    r = subprocess.CompletedProcess(pr.args, pr.returncode, out_, None)
    if r.returncode != 0:
        return dict(m, status="killed-build" if "error[" in r.stdout or "error:" in r.stdout and "test result" not in r.stdout else "killed-tests")
    import engine
    try:
        facts = engine.extract(w)
    except Exception as e:
        return dict(m, status="extract-failed %s" % str(e)[:80])
    caught = {}
    for i in range(1, 19):
        prop = "C%02d" % i
        try:
            obl, new, listed = engine.run_property(prop, "quick", facts_path=facts, quiet=True, write_evidence=False)
        except Exception as e:
            new = [{"key": "CRASH %s" % e}]
        if new:
            caught[prop] = [o["key"] for o in new][:3]
    os.remove(facts)
    return dict(m, status="survived-tests", caught=caught)


def recheck(args):
    """re-run only the rule sets on a mutant already known to pass the crate's tests"""
    k, m = args
    w = os.path.join(ROOT, "r%d" % os.getpid())
    os.makedirs(w, exist_ok=True)
    subprocess.run(["rsync", "-a", "--delete", "--exclude", "target", "--exclude", ".git", REPO + "/", w + "/"], check=True)
    p = os.path.join(w, m["file"])
    lines = open(p).read().split("\n")
    if lines[m["line"]] != m["old"]:
        return dict(m, status="stale")
    lines[m["line"]: m["line"] + m.get("span", 1)] = [m["new"]]
    open(p, "w").write("\n".join(lines))
    import engine
    facts = engine.extract(w)
    caught = {}
    for i in range(1, 19):
        prop = "C%02d" % i
        obl, new, listed = engine.run_property(prop, "quick", facts_path=facts, quiet=True, write_evidence=False)
        if new:
            caught[prop] = [o["key"] for o in new][:3]
    os.remove(facts)
    return dict(m, was=sorted(m.get("caught") or {}), caught=caught)


if __name__ == "__main__":
    if sys.argv[1] == "recheck":
        old = [m for m in json.load(open(sys.argv[2])) if m["status"] == "survived-tests"]
        with ProcessPoolExecutor(NW) as ex:
            for r in ex.map(recheck, list(enumerate(old))):
                now = sorted(r["caught"])
                print("%-9s was %-28s now %-28s %s:%d  %s" % ("CHANGED" if now != r["was"] else "same", r["was"], now, r["file"], r["line"] + 1, r["new"].strip()[:80]), flush=True)
        sys.exit(0)
    n = int(sys.argv[1])
    seed = int(sys.argv[2]) if len(sys.argv) > 2 else 1
    sub = sys.argv[3] if len(sys.argv) > 3 else ""
    muts = gen(n, seed, sub)
    res = []
    with ProcessPoolExecutor(NW) as ex:
        for r in ex.map(run, list(enumerate(muts))):
            res.append(r)
            tag = r["status"]
            if tag == "survived-tests":
                tag += " CAUGHT %s" % sorted(r["caught"]) if r["caught"] else " *** MISSED BY ALL ***"
            print("%-28s %s:%d  %s  =>  %s" % (tag[:60], r["file"], r["line"] + 1, r["old"].strip()[:70], r["new"].strip()[:70]), flush=True)
    json.dump(res, open(os.path.join(V, ".work", "mutcamp-%d.json" % seed), "w"), indent=1)
    st = {}
    for r in res:
        k = r["status"] + ("+caught" if r.get("caught") else ("+missed" if r["status"] == "survived-tests" else ""))
        st[k] = st.get(k, 0) + 1
    print(st)
