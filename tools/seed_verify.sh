#!/bin/bash
# usage: seed_verify.sh <id> <worktree> : confirms a sub-agent's seeded change independently
#  1. existing suite passes with the change   2. demo fails with the change   3. demo passes without it
id=$1; wt=$2
cd $wt || exit 2
git diff -- src > /tmp/seed_$id.current.diff
if ! diff -q /tmp/seed_$id.current.diff _seed/patch.diff >/dev/null; then echo "NOTE: worktree diff differs from _seed/patch.diff"; fi
echo "== suite with change (excluding demo)"
cargo test --offline --lib --test cached_integration_test --test cached_concurrency_integration_test 2>&1 | grep -E "^test result|FAILED|failed" | head
echo "== demo with change (expect FAIL)"
cargo test --offline --test seed_demo 2>&1 | grep -E "^test result|panicked" | head -5
git apply -R _seed/patch.diff || { echo "cannot revert"; exit 2; }
echo "== demo without change (expect ok)"
cargo test --offline --test seed_demo 2>&1 | grep -E "^test result|panicked" | head -5
git apply _seed/patch.diff
