// cachedlint: rustc_private fact extractor for /verif (static analysis of tinylfu-cached).
//
// Invoked as RUSTC_WORKSPACE_WRAPPER: argv[1] is the real rustc path, the rest are rustc's args.
// For the crate named by CACHEDLINT_CRATE (default tinylfu_cached) it type-checks the crate, then
// dumps a JSON fact base (MIR-lite of every fn/closure body, ADTs, consts, instance graph) into the
// file named by CACHEDLINT_OUT (one write per process). All other crates compile normally.
#![feature(rustc_private)]
#![allow(clippy::all)]

extern crate rustc_abi;
extern crate rustc_driver;
extern crate rustc_hir;
extern crate rustc_interface;
extern crate rustc_middle;
extern crate rustc_span;

mod json;

use json::J;
use rustc_driver::{Callbacks, Compilation};
use rustc_hir::def::DefKind;
use rustc_hir::def_id::{DefId, LOCAL_CRATE};
use rustc_interface::interface::Compiler;
use rustc_middle::mir::PlaceTy;
use rustc_middle::mir::{
    AggregateKind, BasicBlock, Body, BorrowKind, Const, Operand, Place, ProjectionElem, Rvalue,
    StatementKind, TerminatorKind,
};
use rustc_middle::ty::print::with_no_trimmed_paths;
use rustc_middle::ty::{
    self, EarlyBinder, GenericArgKind, GenericArgs, GenericArgsRef, Instance, InstanceKind, Ty,
    TyCtxt, TypingEnv,
};
use rustc_span::Span;
use std::collections::{BTreeMap, HashMap, VecDeque};

struct Cb;

impl Callbacks for Cb {
    fn after_analysis<'tcx>(&mut self, _c: &Compiler, tcx: TyCtxt<'tcx>) -> Compilation {
        let want = std::env::var("CACHEDLINT_CRATE").unwrap_or_else(|_| "tinylfu_cached".to_string());
        let name = tcx.crate_name(LOCAL_CRATE).to_string();
        if name != want {
            return Compilation::Continue;
        }
        let out = match std::env::var("CACHEDLINT_OUT") {
            Ok(o) => o,
            Err(_) => return Compilation::Continue,
        };
        // only the lib target of the crate (tests/benches/bins of the same name are clients)
        let facts = with_no_trimmed_paths!(extract(tcx));
        let mut s = String::new();
        facts.write(&mut s);
        std::fs::write(&out, s).expect("cachedlint: cannot write fact file");
        Compilation::Continue
    }
}

fn main() {
    let args: Vec<String> = std::env::args().skip(1).collect();
    rustc_driver::run_compiler(&args, &mut Cb);
}

// ------------------------------------------------------------------------------------------------

fn path<'tcx>(tcx: TyCtxt<'tcx>, d: DefId) -> String {
    tcx.def_path_str(d)
}

fn span_json<'tcx>(tcx: TyCtxt<'tcx>, sp: Span) -> (String, i128, bool, String) {
    let sm = tcx.sess.source_map();
    let exp = sp.from_expansion();
    let mut mac = String::new();
    if exp {
        // outermost macro name in the expansion chain that is a bang macro
        let mut cur = sp;
        let mut names = vec![];
        while cur.from_expansion() {
            let d = cur.ctxt().outer_expn_data();
            if let Some(m) = d.macro_def_id {
                names.push(path(tcx, m));
            } else {
                names.push(format!("{:?}", d.kind));
            }
            cur = d.call_site;
        }
        mac = names.join(">");
    }
    let root = sp.source_callsite();
    let lo = sm.lookup_char_pos(root.lo());
    let file = format!("{}", lo.file.name.prefer_local_unconditionally());
    (file, lo.line as i128, exp, mac)
}

fn ty_str<'tcx>(t: Ty<'tcx>) -> String {
    format!("{}", t)
}

fn args_json<'tcx>(args: GenericArgsRef<'tcx>) -> J {
    let mut v = vec![];
    for a in args.iter() {
        match a.kind() {
            GenericArgKind::Type(t) => v.push(J::s(ty_str(t))),
            GenericArgKind::Const(c) => v.push(J::s(format!("{}", c))),
            GenericArgKind::Lifetime(_) => {}
        }
    }
    J::Arr(v)
}

const GUARDS: [&str; 4] = ["RwLockReadGuard", "RwLockWriteGuard", "MutexGuard", "RwLockUpgradableReadGuard"];

/// lock guards held *by value* inside a type: (guard kind, protected data type)
fn guards_in<'tcx>(tcx: TyCtxt<'tcx>, t: Ty<'tcx>, depth: usize, out: &mut Vec<(String, String)>) {
    if depth > 8 {
        return;
    }
    match t.kind() {
        ty::Adt(adt, args) => {
            let p = path(tcx, adt.did());
            let krate = tcx.crate_name(adt.did().krate).to_string();
            let item = tcx.item_name(adt.did()).to_string();
            if krate == "lock_api" && GUARDS.contains(&item.as_str()) {
                let data = args.types().last().map(ty_str).unwrap_or_default();
                let e = (item, data);
                if !out.contains(&e) {
                    out.push(e);
                }
                return;
            }
            if adt.is_box() || p == "std::sync::Arc" || p == "alloc::sync::Arc" || p == "std::rc::Rc" {
                // owning pointers: a guard behind Arc/Box/Rc is held for as long as the pointer lives
                // (dashmap's iterators keep Arc<RwLockReadGuard>); their fields are raw pointers, so
                // recurse into the pointee type argument instead
                if let Some(inner) = args.types().next() {
                    guards_in(tcx, inner, depth + 1, out);
                }
                return;
            }
            for f in adt.all_fields() {
                let ft = f.ty(tcx, args);
                guards_in(tcx, ft, depth + 1, out);
            }
        }
        ty::Tuple(ts) => {
            for x in ts.iter() {
                guards_in(tcx, x, depth + 1, out);
            }
        }
        ty::Closure(_, args) => {
            for x in args.as_closure().upvar_tys().iter() {
                guards_in(tcx, x, depth + 1, out);
            }
        }
        ty::Array(x, _) => guards_in(tcx, *x, depth + 1, out),
        _ => {}
    }
}

fn place_json<'tcx>(tcx: TyCtxt<'tcx>, body: &Body<'tcx>, p: &Place<'tcx>) -> J {
    let mut projs = vec![];
    let mut pty = PlaceTy::from_ty(body.local_decls[p.local].ty);
    for elem in p.projection.iter() {
        let j = match elem {
            ProjectionElem::Deref => J::s("deref"),
            ProjectionElem::Field(f, _) => {
                let idx = f.as_usize();
                let name = match pty.ty.kind() {
                    ty::Adt(adt, _) => {
                        let v = pty.variant_index.unwrap_or(rustc_abi::FIRST_VARIANT);
                        if adt.is_enum() || adt.is_struct() || adt.is_union() {
                            adt.variant(v).fields.iter().nth(idx).map(|fd| fd.name.to_string()).unwrap_or(idx.to_string())
                        } else {
                            idx.to_string()
                        }
                    }
                    ty::Closure(def, _) => {
                        if let Some(l) = def.as_local() {
                            tcx.closure_captures(l).get(idx).map(|c| c.to_string(tcx)).unwrap_or(idx.to_string())
                        } else {
                            idx.to_string()
                        }
                    }
                    _ => idx.to_string(),
                };
                J::obj(vec![("f", J::s(name)), ("i", J::n(idx as i128))])
            }
            ProjectionElem::Downcast(_, vidx) => {
                let name = match pty.ty.kind() {
                    ty::Adt(adt, _) => adt.variant(vidx).name.to_string(),
                    _ => format!("{}", vidx.as_usize()),
                };
                J::obj(vec![("dc", J::s(name))])
            }
            ProjectionElem::Index(l) => J::obj(vec![("index", J::n(l.as_usize() as i128))]),
            ProjectionElem::ConstantIndex { offset, .. } => J::obj(vec![("cindex", J::n(offset as i128))]),
            _ => J::s("other"),
        };
        projs.push(j);
        pty = pty.projection_ty(tcx, elem);
    }
    J::obj(vec![("l", J::n(p.local.as_usize() as i128)), ("p", J::Arr(projs))])
}

fn const_json<'tcx>(tcx: TyCtxt<'tcx>, env: TypingEnv<'tcx>, c: &Const<'tcx>) -> J {
    let t = c.ty();
    let mut o = vec![("k", J::s("const")), ("ty", J::s(ty_str(t)))];
    if let Const::Unevaluated(uv, _) = c {
        if let Some(p) = uv.promoted {
            o.push(("promoted", J::n(p.as_usize() as i128)));
            return J::obj(o);
        }
    }
    match t.kind() {
        ty::FnDef(d, args) => {
            o.push(("fn", J::s(path(tcx, *d))));
            o.push(("args", args_json(args)));
            o.push(("local", J::Bool(d.is_local())));
        }
        ty::Closure(d, _) => {
            o.push(("closure", J::s(path(tcx, *d))));
        }
        _ => {
            if let Some(si) = c.try_eval_scalar_int(tcx, env) {
                let size = si.size();
                let v: i128 = match t.kind() {
                    ty::Int(_) => si.to_int(size),
                    _ => si.to_uint(size) as i128,
                };
                o.push(("v", J::n(v)));
            } else {
                o.push(("repr", J::s(format!("{}", c))));
            }
        }
    }
    J::obj(o)
}

fn operand_json<'tcx>(tcx: TyCtxt<'tcx>, env: TypingEnv<'tcx>, body: &Body<'tcx>, op: &Operand<'tcx>) -> J {
    match op {
        Operand::Copy(p) => J::obj(vec![("k", J::s("copy")), ("place", place_json(tcx, body, p))]),
        Operand::Move(p) => J::obj(vec![("k", J::s("move")), ("place", place_json(tcx, body, p))]),
        Operand::Constant(c) => const_json(tcx, env, &c.const_),
        #[allow(unreachable_patterns)]
        _ => J::obj(vec![("k", J::s("otherop")), ("repr", J::s(format!("{:?}", op)))]),
    }
}

fn rvalue_json<'tcx>(tcx: TyCtxt<'tcx>, env: TypingEnv<'tcx>, body: &Body<'tcx>, rv: &Rvalue<'tcx>) -> J {
    let op = |o: &Operand<'tcx>| operand_json(tcx, env, body, o);
    match rv {
        Rvalue::Use(o, ..) => J::obj(vec![("k", J::s("use")), ("op", op(o))]),
        Rvalue::Ref(_, bk, p) => {
            let m = matches!(bk, BorrowKind::Mut { .. });
            J::obj(vec![("k", J::s("ref")), ("mut", J::Bool(m)), ("place", place_json(tcx, body, p))])
        }
        Rvalue::RawPtr(_, p) => J::obj(vec![("k", J::s("rawptr")), ("place", place_json(tcx, body, p))]),
        Rvalue::CopyForDeref(p) => J::obj(vec![
            ("k", J::s("use")),
            ("op", J::obj(vec![("k", J::s("copy")), ("place", place_json(tcx, body, p))])),
        ]),
        Rvalue::Cast(kind, o, t) => J::obj(vec![
            ("k", J::s("cast")),
            ("ck", J::s(format!("{:?}", kind))),
            ("op", op(o)),
            ("ty", J::s(ty_str(*t))),
        ]),
        Rvalue::BinaryOp(b, ab) => J::obj(vec![
            ("k", J::s("binop")),
            ("op", J::s(format!("{:?}", b))),
            ("a", op(&ab.0)),
            ("b", op(&ab.1)),
        ]),
        Rvalue::UnaryOp(u, o) => J::obj(vec![("k", J::s("unop")), ("op", J::s(format!("{:?}", u))), ("a", op(o))]),
        Rvalue::Discriminant(p) => {
            let pt = p.ty(body, tcx).ty;
            let mut vs = vec![];
            if let ty::Adt(adt, _) = pt.kind() {
                if adt.is_enum() {
                    for (vidx, d) in adt.discriminants(tcx) {
                        vs.push(J::Arr(vec![J::n(d.val as i128), J::s(adt.variant(vidx).name.to_string())]));
                    }
                }
            }
            J::obj(vec![
                ("k", J::s("discr")),
                ("place", place_json(tcx, body, p)),
                ("ety", J::s(ty_str(pt))),
                ("variants", J::Arr(vs)),
            ])
        }
        Rvalue::Repeat(o, n) => J::obj(vec![("k", J::s("repeat")), ("op", op(o)), ("n", J::s(format!("{}", n)))]),
        Rvalue::Aggregate(kind, ops) => {
            let mut o = vec![("k", J::s("agg"))];
            let mut names: Vec<J> = vec![];
            match &**kind {
                AggregateKind::Array(_) => o.push(("agg", J::s("array"))),
                AggregateKind::Tuple => o.push(("agg", J::s("tuple"))),
                AggregateKind::Adt(d, vidx, _args, _, active) => {
                    let adt = tcx.adt_def(*d);
                    o.push(("agg", J::s("adt")));
                    o.push(("adt", J::s(path(tcx, *d))));
                    let var = adt.variant(*vidx);
                    o.push(("variant", J::s(var.name.to_string())));
                    if active.is_none() {
                        for f in var.fields.iter() {
                            names.push(J::s(f.name.to_string()));
                        }
                    }
                }
                AggregateKind::Closure(d, _) => {
                    o.push(("agg", J::s("closure")));
                    o.push(("closure", J::s(path(tcx, *d))));
                    if let Some(l) = d.as_local() {
                        for c in tcx.closure_captures(l) {
                            names.push(J::s(c.to_string(tcx)));
                        }
                    }
                }
                other => o.push(("agg", J::s(format!("{:?}", other)))),
            }
            o.push(("names", J::Arr(names)));
            o.push(("ops", J::Arr(ops.iter().map(|x| op(x)).collect())));
            J::obj(o)
        }
        other => J::obj(vec![("k", J::s("other")), ("repr", J::s(format!("{:?}", other)))]),
    }
}

fn resolve_kind<'tcx>(tcx: TyCtxt<'tcx>, r: Result<Option<Instance<'tcx>>, rustc_span::ErrorGuaranteed>) -> (String, Option<Instance<'tcx>>, String) {
    match r {
        Ok(Some(i)) => match i.def {
            InstanceKind::Item(d) => ("item".into(), Some(i), path(tcx, d)),
            InstanceKind::Virtual(d, _) => ("virtual".into(), Some(i), path(tcx, d)),
            InstanceKind::ClosureOnceShim { .. } => ("closure_once".into(), Some(i), String::new()),
            InstanceKind::FnPtrShim(d, _) => ("fnptr_shim".into(), Some(i), path(tcx, d)),
            InstanceKind::DropGlue(..) => ("drop_glue".into(), Some(i), String::new()),
            InstanceKind::CloneShim(d, _) => ("clone_shim".into(), Some(i), path(tcx, d)),
            InstanceKind::Intrinsic(d) => ("intrinsic".into(), Some(i), path(tcx, d)),
            InstanceKind::ReifyShim(d, _) => ("reify".into(), Some(i), path(tcx, d)),
            _ => ("shim".into(), Some(i), format!("{:?}", i.def)),
        },
        Ok(None) => ("unresolved".into(), None, String::new()),
        Err(_) => ("error".into(), None, String::new()),
    }
}

fn body_json<'tcx>(tcx: TyCtxt<'tcx>, def: DefId, body: &Body<'tcx>) -> J {
    let env = TypingEnv::post_analysis(tcx, def);
    let mut locals = vec![];
    let mut names: HashMap<usize, String> = HashMap::new();
    for vdi in body.var_debug_info.iter() {
        if let rustc_middle::mir::VarDebugInfoContents::Place(p) = vdi.value {
            if p.projection.is_empty() {
                names.entry(p.local.as_usize()).or_insert(vdi.name.to_string());
            }
        }
    }
    for (l, decl) in body.local_decls.iter_enumerated() {
        let mut g = vec![];
        guards_in(tcx, decl.ty, 0, &mut g);
        let mut o = vec![("ty", J::s(ty_str(decl.ty)))];
        if !g.is_empty() {
            o.push((
                "guards",
                J::Arr(g.into_iter().map(|(k, d)| J::obj(vec![("kind", J::s(k)), ("data", J::s(d))])).collect()),
            ));
        }
        if let Some(n) = names.get(&l.as_usize()) {
            o.push(("name", J::s(n.clone())));
        }
        locals.push(J::obj(o));
    }
    let mut blocks = vec![];
    for (_bb, data) in body.basic_blocks.iter_enumerated() {
        let mut stmts = vec![];
        for st in data.statements.iter() {
            let (_f, line, exp, mac) = span_json(tcx, st.source_info.span);
            match &st.kind {
                StatementKind::Assign(b) => {
                    let (pl, rv) = &**b;
                    let mut o = vec![
                        ("k", J::s("assign")),
                        ("place", place_json(tcx, body, pl)),
                        ("rv", rvalue_json(tcx, env, body, rv)),
                        ("line", J::n(line)),
                    ];
                    if exp {
                        o.push(("mac", J::s(mac)));
                    }
                    stmts.push(J::obj(o));
                }
                StatementKind::SetDiscriminant { place, variant_index } => {
                    stmts.push(J::obj(vec![
                        ("k", J::s("setdiscr")),
                        ("place", place_json(tcx, body, place)),
                        ("variant", J::n(variant_index.as_usize() as i128)),
                        ("line", J::n(line)),
                    ]));
                }
                StatementKind::StorageDead(l) => {
                    stmts.push(J::obj(vec![("k", J::s("dead")), ("l", J::n(l.as_usize() as i128))]));
                }
                _ => {}
            }
        }
        let term = data.terminator();
        let (_f, line, exp, mac) = span_json(tcx, term.source_info.span);
        let bbn = |b: BasicBlock| J::n(b.as_usize() as i128);
        let mut o: Vec<(&str, J)> = vec![("line", J::n(line))];
        if exp {
            o.push(("mac", J::s(mac)));
        }
        match &term.kind {
            TerminatorKind::Goto { target } => {
                o.push(("k", J::s("goto")));
                o.push(("target", bbn(*target)));
            }
            TerminatorKind::SwitchInt { discr, targets } => {
                o.push(("k", J::s("switch")));
                o.push(("discr", operand_json(tcx, env, body, discr)));
                let mut ts = vec![];
                for (v, t) in targets.iter() {
                    ts.push(J::Arr(vec![J::n(v as i128), bbn(t)]));
                }
                o.push(("targets", J::Arr(ts)));
                o.push(("otherwise", bbn(targets.otherwise())));
                o.push(("dty", J::s(ty_str(discr.ty(body, tcx)))));
            }
            TerminatorKind::Return => o.push(("k", J::s("return"))),
            TerminatorKind::Unreachable => o.push(("k", J::s("unreachable"))),
            TerminatorKind::UnwindResume => o.push(("k", J::s("resume"))),
            TerminatorKind::UnwindTerminate(_) => o.push(("k", J::s("abort"))),
            TerminatorKind::Drop { place, target, .. } => {
                o.push(("k", J::s("drop")));
                o.push(("place", place_json(tcx, body, place)));
                o.push(("target", bbn(*target)));
                o.push(("ty", J::s(ty_str(place.ty(body, tcx).ty))));
            }
            TerminatorKind::Assert { cond, expected, msg, target, .. } => {
                o.push(("k", J::s("assert")));
                o.push(("cond", operand_json(tcx, env, body, cond)));
                o.push(("expected", J::Bool(*expected)));
                let m = format!("{:?}", msg);
                let kind = m.split(|c: char| c == '(' || c == ' ' || c == '{').next().unwrap_or("").to_string();
                o.push(("msg", J::s(kind)));
                o.push(("target", bbn(*target)));
            }
            TerminatorKind::Call { func, args, destination, target, fn_span, .. } => {
                o.push(("k", J::s("call")));
                let (_f2, l2, _, _) = span_json(tcx, *fn_span);
                o.push(("fn_line", J::n(l2)));
                o.push(("args", J::Arr(args.iter().map(|a| operand_json(tcx, env, body, &a.node)).collect())));
                o.push(("dest", place_json(tcx, body, destination)));
                if let Some(t) = target {
                    o.push(("target", bbn(*t)));
                }
                let fty = func.ty(body, tcx);
                match fty.kind() {
                    ty::FnDef(d, gargs) => {
                        o.push(("callee", J::s(path(tcx, *d))));
                        o.push(("gargs", args_json(gargs)));
                        o.push(("callee_local", J::Bool(d.is_local())));
                        let (kind, inst, rpath) = resolve_kind(tcx, Instance::try_resolve(tcx, env, *d, gargs));
                        o.push(("res", J::s(kind)));
                        o.push(("rpath", J::s(rpath)));
                        if let Some(i) = inst {
                            o.push(("rlocal", J::Bool(i.def_id().is_local())));
                        }
                        // self type of a trait method call (first generic arg), useful for USER models
                        if let Some(tr) = tcx.trait_of_assoc(*d) {
                            o.push(("trait", J::s(path(tcx, tr))));
                        }
                    }
                    _ => {
                        o.push(("callee", J::s("<indirect>")));
                        o.push(("fty", J::s(ty_str(fty))));
                        o.push(("func", operand_json(tcx, env, body, func)));
                        o.push(("res", J::s("indirect")));
                    }
                }
            }
            TerminatorKind::FalseEdge { real_target, .. } => {
                o.push(("k", J::s("goto")));
                o.push(("target", bbn(*real_target)));
            }
            TerminatorKind::FalseUnwind { real_target, .. } => {
                o.push(("k", J::s("goto")));
                o.push(("target", bbn(*real_target)));
            }
            other => {
                o.push(("k", J::s("other")));
                o.push(("repr", J::s(format!("{:?}", other))));
            }
        }
        blocks.push(J::obj(vec![
            ("cleanup", J::Bool(data.is_cleanup)),
            ("stmts", J::Arr(stmts)),
            ("term", J::obj(o)),
        ]));
    }
    J::obj(vec![
        ("argc", J::n(body.arg_count as i128)),
        ("locals", J::Arr(locals)),
        ("blocks", J::Arr(blocks)),
    ])
}

// ------------------------------------------------------------------------------------------------
// instance graph

struct Graph<'tcx> {
    ids: HashMap<Instance<'tcx>, usize>,
    nodes: Vec<J>,
}

fn local_callbacks_in<'tcx>(tcx: TyCtxt<'tcx>, t: Ty<'tcx>, depth: usize, out: &mut Vec<Instance<'tcx>>) {
    if depth > 6 {
        return;
    }
    match t.kind() {
        ty::Closure(d, args) => {
            // the closure itself may be invoked by the callee; closures it captures are reached through
            // its own body (Fn::call on the upvar resolves there), not by the foreign callee directly
            if d.is_local() {
                out.push(Instance::new_raw(*d, args));
            }
        }
        ty::FnDef(d, args) => {
            if d.is_local() {
                out.push(Instance::new_raw(*d, args));
            }
        }
        ty::Ref(_, x, _) => local_callbacks_in(tcx, *x, depth + 1, out),
        ty::Adt(_, args) => {
            for x in args.types() {
                local_callbacks_in(tcx, x, depth + 1, out);
            }
        }
        ty::Tuple(ts) => {
            for x in ts.iter() {
                local_callbacks_in(tcx, x, depth + 1, out);
            }
        }
        _ => {}
    }
}

fn walk_instances<'tcx>(tcx: TyCtxt<'tcx>, roots: &[DefId]) -> J {
    let mut g = Graph { ids: HashMap::new(), nodes: vec![] };
    let mut root_ids = vec![];
    for &root in roots {
        let env = TypingEnv::post_analysis(tcx, root);
        let rinst = Instance::new_raw(root, GenericArgs::identity_for_item(tcx, root));
        let mut queue: VecDeque<Instance<'tcx>> = VecDeque::new();
        let rid = intern(tcx, &mut g, rinst, &mut queue);
        root_ids.push(J::n(rid as i128));
        while let Some(inst) = queue.pop_front() {
            let id = g.ids[&inst];
            let did = inst.def_id();
            if !did.is_local() || !matches!(inst.def, InstanceKind::Item(_)) {
                continue;
            }
            if !tcx.is_mir_available(did) {
                continue;
            }
            let body = tcx.optimized_mir(did);
            let mut calls: Vec<(String, J)> = vec![];
            for (bb, data) in body.basic_blocks.iter_enumerated() {
                let term = data.terminator();
                if let TerminatorKind::Call { func, .. } = &term.kind {
                    let fty = func.ty(body, tcx);
                    let fty = match inst.try_instantiate_mir_and_normalize_erasing_regions(tcx, env, EarlyBinder::bind(fty)) {
                        Ok(t) => t,
                        Err(_) => {
                            calls.push((bb.as_usize().to_string(), J::obj(vec![("k", J::s("user")), ("why", J::s("normalize"))])));
                            continue;
                        }
                    };
                    let mut o: Vec<(&str, J)> = vec![];
                    match fty.kind() {
                        ty::FnDef(d, gargs) => {
                            let (kind, rinst, rpath) = resolve_kind(tcx, Instance::try_resolve(tcx, env, *d, gargs));
                            o.push(("callee", J::s(path(tcx, *d))));
                            o.push(("gargs", args_json(gargs)));
                            o.push(("res", J::s(kind.clone())));
                            o.push(("rpath", J::s(rpath)));
                            let mut cbs: Vec<Instance<'tcx>> = vec![];
                            match (kind.as_str(), rinst) {
                                ("item", Some(ri)) if ri.def_id().is_local() => {
                                    let cid = intern(tcx, &mut g, ri, &mut queue);
                                    o.push(("k", J::s("local")));
                                    o.push(("inst", J::n(cid as i128)));
                                }
                                ("closure_once", Some(ri)) => {
                                    // FnOnce::call_once on a closure: the closure body itself
                                    let cty = ri.args.type_at(0);
                                    local_callbacks_in(tcx, cty, 0, &mut cbs);
                                    if let Some(c) = cbs.first().copied() {
                                        let cid = intern(tcx, &mut g, c, &mut queue);
                                        o.push(("k", J::s("local")));
                                        o.push(("inst", J::n(cid as i128)));
                                        cbs.clear();
                                    } else {
                                        o.push(("k", J::s("user")));
                                    }
                                }
                                ("item", Some(_)) | ("intrinsic", Some(_)) | ("clone_shim", Some(_)) | ("drop_glue", Some(_)) | ("reify", Some(_)) => {
                                    o.push(("k", J::s("ext")));
                                    for a in gargs.types() {
                                        local_callbacks_in(tcx, a, 0, &mut cbs);
                                    }
                                }
                                _ => {
                                    // virtual, fn-pointer shims, unresolved trait calls on type parameters
                                    o.push(("k", J::s("user")));
                                    for a in gargs.types() {
                                        local_callbacks_in(tcx, a, 0, &mut cbs);
                                    }
                                }
                            }
                            if !cbs.is_empty() {
                                let mut v = vec![];
                                for c in cbs {
                                    let cid = intern(tcx, &mut g, c, &mut queue);
                                    if !v.contains(&cid) {
                                        v.push(cid);
                                    }
                                }
                                o.push(("cbs", J::Arr(v.into_iter().map(|x| J::n(x as i128)).collect())));
                            }
                        }
                        _ => {
                            o.push(("k", J::s("user")));
                            o.push(("why", J::s("indirect")));
                            o.push(("fty", J::s(ty_str(fty))));
                        }
                    }
                    calls.push((bb.as_usize().to_string(), J::obj(o)));
                }
            }
            if let J::Obj(ref mut fields) = g.nodes[id] {
                fields.push(("calls".to_string(), J::Obj(calls)));
            }
        }
    }
    J::obj(vec![("nodes", J::Arr(g.nodes)), ("roots", J::Arr(root_ids))])
}

fn intern<'tcx>(tcx: TyCtxt<'tcx>, g: &mut Graph<'tcx>, inst: Instance<'tcx>, queue: &mut VecDeque<Instance<'tcx>>) -> usize {
    if let Some(&i) = g.ids.get(&inst) {
        return i;
    }
    let id = g.nodes.len();
    g.ids.insert(inst, id);
    let did = inst.def_id();
    let args = if tcx.is_closure_like(did) { inst.args.as_closure().parent_args() } else { inst.args.as_slice() };
    let mut av = vec![];
    for a in args.iter() {
        if let GenericArgKind::Type(t) = a.kind() {
            av.push(J::s(ty_str(t)));
        }
    }
    g.nodes.push(J::obj(vec![
        ("id", J::n(id as i128)),
        ("def", J::s(path(tcx, did))),
        ("args", J::Arr(av)),
        ("local", J::Bool(did.is_local())),
    ]));
    queue.push_back(inst);
    id
}

// ------------------------------------------------------------------------------------------------

fn extract<'tcx>(tcx: TyCtxt<'tcx>) -> J {
    let ev = tcx.effective_visibilities(());
    let mut fns: BTreeMap<String, J> = BTreeMap::new();
    let mut roots_pub: Vec<DefId> = vec![];
    let mut roots_other: Vec<DefId> = vec![];
    let mut consts: Vec<(String, J)> = vec![];
    let mut const_bodies: Vec<(String, J)> = vec![];
    for ldid in tcx.hir_body_owners() {
        let did = ldid.to_def_id();
        let kind = tcx.def_kind(did);
        match kind {
            DefKind::Fn | DefKind::AssocFn | DefKind::Closure => {
                let body = tcx.optimized_mir(did);
                let (file, line, _, _) = span_json(tcx, tcx.def_span(did));
                let mut o = vec![
                    ("kind", J::s(format!("{:?}", kind))),
                    ("file", J::s(file)),
                    ("line", J::n(line)),
                ];
                if matches!(kind, DefKind::Fn | DefKind::AssocFn) {
                    let vis = tcx.visibility(did);
                    o.push(("vis", J::s(if vis.is_public() { "pub".to_string() } else { format!("{:?}", vis) })));
                    let reach = ev.is_reachable(ldid);
                    o.push(("reachable", J::Bool(reach)));
                    if reach {
                        roots_pub.push(did);
                    } else {
                        roots_other.push(did);
                    }
                    if let Some(imp) = tcx.impl_of_assoc(did) {
                        o.push(("self_ty", J::s(ty_str(tcx.type_of(imp).instantiate_identity().skip_norm_wip()))));
                        if let Some(tr) = tcx.impl_opt_trait_ref(imp) {
                            o.push(("impl_trait", J::s(path(tcx, tr.skip_binder().def_id))));
                        }
                    }
                    let sig = tcx.fn_sig(did).instantiate_identity().skip_norm_wip().skip_binder();
                    o.push(("ret", J::s(ty_str(sig.output()))));
                } else {
                    o.push(("parent", J::s(path(tcx, tcx.parent(did)))));
                }
                o.push(("body", body_json(tcx, did, body)));
                let proms = tcx.promoted_mir(did);
                if !proms.is_empty() {
                    o.push(("promoted", J::Arr(proms.iter().map(|pb| body_json(tcx, did, pb)).collect())));
                }
                fns.insert(path(tcx, did), J::obj(o));
            }
            DefKind::Const { .. } | DefKind::AssocConst { .. } => {
                {
                    // table constants (`const VALUES: [StatsType; N] = [..]`): the initialiser's MIR, so that rules can read
                    // which elements the table lists
                    let t = tcx.type_of(did).instantiate_identity().skip_norm_wip();
                    if matches!(t.kind(), ty::Array(..)) {
                        let body = tcx.mir_for_ctfe(did);
                        const_bodies.push((path(tcx, did), body_json(tcx, did, body)));
                    }
                }
                if let Ok(v) = tcx.const_eval_poly(did) {
                    let t = tcx.type_of(did).instantiate_identity().skip_norm_wip();
                    if let Some(s) = v.try_to_scalar_int() {
                        let size = s.size();
                        let val: i128 = match t.kind() {
                            ty::Int(_) => s.to_int(size),
                            _ => s.to_uint(size) as i128,
                        };
                        consts.push((path(tcx, did), J::obj(vec![("ty", J::s(ty_str(t))), ("v", J::n(val))])));
                    }
                }
            }
            _ => {}
        }
    }
    // ADTs
    let mut adts: Vec<(String, J)> = vec![];
    for ldid in tcx.hir_crate_items(()).definitions() {
        let did = ldid.to_def_id();
        if matches!(tcx.def_kind(did), DefKind::Struct | DefKind::Enum) {
            let adt = tcx.adt_def(did);
            let mut variants = vec![];
            for v in adt.variants().iter() {
                let mut fs = vec![];
                for f in v.fields.iter() {
                    let ft = tcx.type_of(f.did).instantiate_identity().skip_norm_wip();
                    let mut g = vec![];
                    guards_in(tcx, ft, 0, &mut g);
                    fs.push(J::obj(vec![
                        ("name", J::s(f.name.to_string())),
                        ("ty", J::s(ty_str(ft))),
                        ("vis", J::s(if f.vis.is_public() { "pub".to_string() } else { format!("{:?}", f.vis) })),
                        ("holds_guard", J::Bool(!g.is_empty())),
                    ]));
                }
                variants.push(J::obj(vec![("name", J::s(v.name.to_string())), ("fields", J::Arr(fs))]));
            }
            let (file, line, _, _) = span_json(tcx, tcx.def_span(did));
            adts.push((
                path(tcx, did),
                J::obj(vec![
                    ("kind", J::s(format!("{:?}", tcx.def_kind(did)))),
                    ("reachable", J::Bool(ev.is_reachable(ldid))),
                    ("file", J::s(file)),
                    ("line", J::n(line)),
                    ("variants", J::Arr(variants)),
                ]),
            ));
        }
    }
    let mut roots = roots_pub.clone();
    roots.extend(roots_other.iter().copied());
    let graph = walk_instances(tcx, &roots);
    let nonce = std::env::var("CACHEDLINT_NONCE").unwrap_or_default();
    J::obj(vec![
        ("nonce", J::s(nonce)),
        ("crate", J::s(tcx.crate_name(LOCAL_CRATE).to_string())),
        ("fns", J::Obj(fns.into_iter().collect())),
        ("consts", J::Obj(consts)),
        ("const_bodies", J::Obj(const_bodies)),
        ("adts", J::Obj(adts)),
        ("graph", graph),
    ])
}
