"""C06 — admission follows the TinyLFU rule: colder keys never evict hotter ones.  (DESIGN §4 C06)"""
import itertools
from core import (strip_site, same_value, fmt, enum_paths, path_atoms, path_calls, path_return, ret_variant, mentions,
                  subexprs, is_call_to, root_calls, bool_branches, bool_branch, variant_edges, site_effects,
                  is_effectful, closure_captures, back_edge_heads, dashmap_call)
from weight import WeightModel

from sym import ipaths

import inline

LEVEL = "other"
EXPLANATION = ("The inputs of admission are only ever compared, so its behaviour is a finite decision table, extracted "
               "from MIR paths and compared with the TinyLFU specification: the over-weight / fits / must-evict rows of "
               "the admission function; the eviction loop (guard available < weight, victim = heap pop, reject iff "
               "incoming estimate < victim estimate strictly, otherwise release the victim's id and refresh the "
               "available space, empty sample => accept iff it now fits); the victim comparator evaluated abstractly "
               "over all 3x3 orderings (lower estimate first, heavier first on ties); estimator agreement between the "
               "incoming key and the sampled keys; duplicate-free bounded sampling; every Rejected result of the loop follows the "
               "colder comparison with the victim popped last or an exhausted sample. That the estimates themselves "
               "are right is C14's subject.")
ASSUMPTIONS = ["std::collections::BinaryHeap::pop returns a greatest element w.r.t. Ord"]


def run(ctx):
    F = ctx.facts
    M = WeightModel(ctx)
    charge_fns = {s["fn"].name for s in M.inc_sites if not (s["amount"][0] == "binop" and s["amount"][1] == "Sub")}
    dec_fns = {s["fn"].name for s in M.dec_sites}
    admit = [f for n, f in F.fns.items() if f.rec.get("ret", "").endswith("command::CommandStatus") and any(t.get("rpath") in charge_fns for b, t in f.calls())]
    ctx.floor("R06.1", "admission functions", len(admit), 1)
    evict_fns = set()
    hook_param = {}
    # ---- R06.1 ----------------------------------------------------------------------------------
    status_fns = {n for n, g in F.fns.items() if g.rec.get("ret", "").endswith("CommandStatus") and g.kind != "Closure"}
    for f in admit:
        ctx.touch(f)
        kd = kd_param(f)
        if kd is None:
            ctx.bad("R06.1", "%s|admission-table" % f.name, "the admission function takes the incoming key's description", f.where())
            continue
        w = ("field", kd, "weight")
        paths = ipaths(F, f, stop=lambda n, me=f.name: n in charge_fns or n in dec_fns or n in M.qnames or (n in status_fns and n != me), depth=3)
        ctx.analysed["paths"] += len(paths)
        bad = []
        rows = set()
        for p in paths:
            over = [a for a in p.atoms if a[0] == "bool" and a[1][0] == "binop" and a[1][1] == "Lt" and strip_site(a[1][3]) == w and is_max(a[1][2])]
            over += [(a[0], a[1], not a[2], a[3]) for a in p.atoms if a[0] == "bool" and a[1][0] == "binop" and a[1][1] == "Le" and strip_site(a[1][2]) == w and is_max(a[1][3])]
            adds = p.calls(charge_fns)
            dels = p.calls(dec_fns)
            ev = [e for e in p.events if not e.log and e.callee in status_fns]
            r = p.ret
            if not over:
                bad.append(("the over-weight test (weight > max) is not evaluated first", p))
                continue
            if over[0][2]:
                rows.add("over-weight")
                eff = [e for e in p.events if not e.log and is_effectful(site_effects(F, e.fn, e.bb))]
                if adds or dels or ev or eff:
                    bad.append(("over-weight key causes effects", p))
                if not (r[0] == "agg" and r[2] == "Rejected" and r[3][0][1][0] == "agg" and r[3][0][1][2] == "KeyWeightIsGreaterThanCacheWeight"):
                    bad.append(("over-weight key is not rejected for that reason", p))
                continue
            fits = [a for a in p.atoms if a[0] == "bool" and M.is_query_field(a[1], w, "1")]
            if not fits:
                bad.append(("space query for the incoming weight not consulted", p))
                continue
            if fits[0][2]:
                rows.add("fits")
                if len(adds) != 1 or dels or ev:
                    bad.append(("fitting key: must add once and evict nothing (adds=%d evictions=%d)" % (len(adds), len(dels) + len(ev)), p))
                if p.ret_variant() != ("Accepted",):
                    bad.append(("fitting key is not Accepted", p))
            else:
                rows.add("must-evict")
                if len(ev) != 1:
                    bad.append(("no-space path must call the eviction loop once", p))
                    continue
                evict_fns.add(ev[0].callee)
                eres = ev[0].res
                eargs = list(ev[0].args)
                if not (any(M.is_query_field(a_, w, "0") for a_ in eargs) and kd in eargs):
                    bad.append(("eviction loop must receive the available space just queried and the incoming description", p))
                # the caller's removal hook: the admission function's other non-self parameter handed on
                for i_, a_ in enumerate(eargs):
                    if a_[0] == "param" and a_ != kd and a_[1] != 1:
                        hook_param.setdefault(ev[0].callee, set()).add(i_ + 1)
                v = p.variant_of(eres)
                acc = v == ("Accepted",)
                if (len(adds) == 1) != acc or len(adds) > 1:
                    bad.append(("weight charged iff eviction accepted is violated", p))
                rv = p.ret_variant()
                if rv is None or ((rv == ("Accepted",)) != acc):
                    bad.append(("status returned is not the eviction loop's", p))
        ctx.check(not bad and rows == {"over-weight", "fits", "must-evict"}, "R06.1", "%s|admission-table" % f.name,
                  "w > max -> Rejected(KeyWeightIsGreaterThanCacheWeight) without effects; fits -> add once, Accepted, nothing evicted; else eviction loop, add iff it accepted (%d symbolic paths)" % len(paths),
                  f.where(), "; ".join("%s %s" % (x, q.show()) for x, q in bad[:3]) or str(sorted(rows)))

    # ---- R06.2 eviction loop -------------------------------------------------------------------------
    ctx.floor("R06.2", "eviction loop functions", len(evict_fns), 1)
    pop_fns = {n for n, g in F.fns.items() if g.calls_to("std::collections::BinaryHeap::<T, A>::pop")}
    est_callee = None
    for en in sorted(evict_fns):
        # a step of the loop extracted into a private helper (`evict(..)`, `status_when_exhausted(..)`) is the loop's own
        f = inline.expand(F, F.fn(en), lambda n_: M.keep_in_expansion(n_) or n_ in pop_fns or n_ in dec_fns)
        ctx.touch(f)
        kd = kd_param(f)
        if kd is None:
            ctx.bad("R06.2", "%s|loop-guard" % en, "the eviction loop takes the incoming key's description", f.where())
            continue
        w = ("field", kd, "weight")
        heads = back_edge_heads(f)
        guards = [(b, expr, tt, ft) for b, expr, tt, ft in bool_branches(f) if expr[0] == "binop" and expr[1] == "Lt" and strip_site(expr[3]) == w and M.avail_ok(f, expr[2], w) is not None]
        ctx.check(len(guards) == 1 and len(heads) == 1, "R06.2", "%s|loop-guard" % en,
                  "the eviction loop runs while available < incoming weight, `available` being the space queried for that weight", f.where(),
                  "guards=%d loops=%d" % (len(guards), len(heads)))
        if len(guards) != 1:
            continue
        gb, gexpr, g_true, g_false = guards[0]
        pops = [(b, t) for b, t in f.calls() if t.get("rpath") in pop_fns]
        ctx.check(len(pops) == 1 and f.edge_dominates((gb, g_true), pops[0][0]), "R06.2", "%s|victim-from-sample-min" % en,
                  "inside the loop the victim is taken from the sample's pop (lowest estimate first, R06.3)", f.where())
        if len(pops) != 1:
            continue
        pb, pt = pops[0]
        victim = ("field", ("variant", f.origin_call(pb, pt), "Some"), "0")
        ve = variant_edges(f, pt["target"])
        some_t = [tgt for n, tgt in ve[1] if n == "Some"] if ve else []
        none_t = [tgt for n, tgt in ve[1] if n == "None"] if ve else []
        # the frequency comparison
        cmps = []
        for b, expr, tt, ft in bool_branches(f):
            if expr[0] == "binop" and expr[1] in ("Lt", "Le") and strip_site(expr[3]) == strip_site(("field", victim, "estimated_frequency")) or \
               expr[0] == "binop" and expr[1] in ("Lt", "Le") and strip_site(expr[2]) == strip_site(("field", victim, "estimated_frequency")):
                cmps.append((b, expr, tt, ft))
        okc = len(cmps) == 1
        if okc:
            cb, cexpr, c_true, c_false = cmps[0]
            inc = cexpr[2]
            tgt_, harg_ = call_target(F, f, inc)
            okc = cexpr[1] == "Lt" and strip_site(cexpr[3]) == strip_site(("field", victim, "estimated_frequency")) and tgt_ is not None and strip_site(harg_) == ("field", kd, "hash")
            if okc:
                est_callee = tgt_
        ctx.check(okc, "R06.2", "%s|strict-frequency-comparison" % en,
                  "the put is refused exactly when incoming estimate < victim estimate (strict), the incoming estimate being that of the incoming key's hash", f.where(cmps[0][0]) if cmps else f.where(),
                  fmt(cmps[0][1]) if cmps else "no comparison against the victim's estimate")
        if not okc:
            continue
        # true edge -> Rejected(not enough space); false edge -> release the victim
        bad = []
        rej_ok = True
        for p in enum_paths(f):
            if (cb, c_true) in zip(p, p[1:]):
                r = path_return(f, p)
                if not (r[0] == "agg" and r[2] == "Rejected" and r[3][0][1][2] == "EnoughSpaceIsNotAvailableAndKeyFailedToEvictOthers"):
                    rej_ok = False
                if any(t.get("rpath") in dec_fns for b, t in path_calls(f, p) if p.index(b) > p.index(cb)):
                    rej_ok = False
        ctx.check(rej_ok, "R06.2", "%s|colder-incoming-rejected" % en, "a colder incoming key is rejected (not enough space) and evicts nothing more", f.where(cb))
        dels = [(b, t) for b, t in f.calls() if t.get("rpath") in dec_fns]
        okd = len(dels) == 1
        if okd:
            db, dt = dels[0]
            okd = f.edge_dominates((cb, c_false), db) and f.edge_dominates((gb, g_true), db) and \
                strip_site(f.op_origin(dt["args"][1])) == strip_site(("field", victim, "id")) and \
                f.op_origin(dt["args"][2])[0] == "param" and {f.op_origin(dt["args"][2])[1]} == hook_param.get(en)
        ctx.check(okd, "R06.2", "%s|evict-victim-only-under-pressure" % en,
                  "a victim is released only inside the loop (available < weight) and only when its estimate does not exceed the incoming one; the id released is the victim's; the caller's removal hook is passed on", f.where(dels[0][0]) if dels else f.where())
        # after a release the loop re-tests with a fresh query
        if okd:
            fresh = [b for b, t in f.calls() if t.get("rpath") in M.qnames and b in f.reach_after(db)]
            ctx.check(bool(fresh) and f.must_pass([db], fresh, targets=[gb]), "R06.2", "%s|refresh-after-release" % en,
                      "after releasing a victim the available space is queried again before the guard is re-tested", f.where(db))
        # None edge: accept iff it fits now ; loop exit: Accepted  (shared with C01's admits summary)
        ctx.check(M.admits(f, w), "R06.2", "%s|accept-iff-space" % en,
                  "every Accepted result is returned under an established 'available >= weight' (loop exit or explicit query), in particular when the sample runs empty", f.where())
        exit_ok = True
        for p in enum_paths(f):
            if (gb, g_false) in zip(p, p[1:]):
                r = path_return(f, p)
                if not (r[0] == "agg" and r[2] == "Accepted"):
                    exit_ok = False
        ctx.check(exit_ok, "R06.2", "%s|enough-space-accepts" % en, "when enough space results the put is accepted", f.where(gb))
        # sample exhausted: accepted iff a query made *after* the empty pop says the incoming weight fits now
        vals = set()
        unforced = None
        n_rej = 0
        for sp in ipaths(F, f, stop=lambda n: n in M.qnames or n in dec_fns or n in pop_fns or n in M.inc_defs, depth=2):
            pe = [e for e in sp.events if e.callee in pop_fns and sp.variant_of(e.res) == ("None",)]
            if (sp.ret_variant() or ("?",))[0] == "Rejected":
                n_rej += 1
                pops_ = sorted([e for e in sp.events if e.callee in pop_fns], key=lambda e_: e_.seq)
                last_pop = pops_[-1].seq if pops_ else -1
                est_ = lambda x_: mentions(x_, lambda s_: s_[0] == "field" and s_[2] == "estimated_frequency")

                def is_colder(a):
                    # the comparison of the incoming estimate with the estimate of the victim popped last, on its "incoming is colder" side
                    if a[0] != "bool" or a[4] < last_pop or a[1][0] != "binop" or a[1][1] not in ("Lt", "Le", "Gt", "Ge"):
                        return False
                    op, x_, y_ = a[1][1], a[1][2], a[1][3]
                    if op in ("Lt", "Ge") and est_(y_) and not est_(x_):       # inc < vic  /  inc >= vic
                        return a[2] == (op == "Lt")
                    if op in ("Gt", "Le") and est_(x_) and not est_(y_):       # vic > inc  /  vic <= inc
                        return a[2] == (op == "Gt")
                    return False
                # (two iterations pop through the same expression: take the outcome established right after the last pop)
                after_ = sorted([a for a in sp.atoms if a[0] == "enum" and pops_ and a[4] > last_pop and strip_site(a[1]) == strip_site(pops_[-1].res)], key=lambda a: a[4])
                exhausted = bool(after_) and after_[0][2] == ("None",)
                if not exhausted and not any(is_colder(a) for a in sp.atoms) and unforced is None:
                    unforced = "%s; after the last victim was taken: %s" % (sp.show()[:120], "; ".join("%s=%s" % (fmt(a[1])[:90], a[2]) for a in sp.atoms if a[4] >= last_pop)[:400])
            if not pe:
                continue
            q = [a for a in sp.atoms if a[0] == "bool" and M.is_query_field(a[1], w, "1") and a[4] > pe[-1].seq]
            vals.add((q[-1][2] if q else None, (sp.ret_variant() or ("?",))[0]))
        ctx.check(vals <= {(True, "Accepted"), (False, "Rejected")} and len(vals) == 2, "R06.2", "%s|empty-sample" % en,
                  "when no victim is left the put is accepted iff the space now suffices, else rejected", f.where(), str(sorted(vals, key=repr)))
        # the converse of colder-incoming-rejected: the loop gives up *only* for those two reasons.  Any other refusal (a
        # shortcut judging from the first sample, a cap on the number of victims) rejects a put for which evicting one key
        # after the other would have made room
        # the same on the control-flow graph, blind to values (a refusal behind a counter - "at most five victims" - lies
        # beyond the two loop iterations the symbolic paths unroll): every CFG path returning Rejected takes the comparison's
        # "colder" edge or the empty-sample edge
        from core import variant_edges_of
        none_edges = {(b_, t_) for n_, (b_, t_) in variant_edges_of(f, f.origin_call(pb, pt)) if n_ == "None"}
        for p in enum_paths(f):
            r = path_return(f, p)
            if r[0] == "agg" and r[2] == "Rejected":
                es = set(zip(p, p[1:]))
                if (cb, c_true) not in es and not (es & none_edges) and unforced is None:
                    unforced = "a control-flow path returns Rejected through neither the comparison's colder edge nor the empty-sample edge: %s" % f.where(p[-2] if len(p) > 1 else p[-1])
        ctx.check(unforced is None and n_rej >= 1, "R06.2", "%s|rejects-only-when-colder-or-exhausted" % en,
                  "every Rejected result of the eviction loop follows either the comparison with a victim's estimate or a sample that ran empty", f.where(),
                  unforced or "%d rejecting path(s)" % n_rej)

    for s_ in M.sites + M.helper_sites:
        ctx.check(s_["kind"] != "unclassified" and s_.get("exact", True), "R06.7", "%s|total-written-exactly" % s_["fn"].name,
                  "every write of the total weight applies exactly the intended amount (the space the decisions and statistics rely on is the true total)", s_["fn"].where(s_["bb"], s_["idx"]))
    # ---- R06.3 comparator ------------------------------------------------------------------------------
    cmps = [f for n, f in F.fns.items() if f.rec.get("impl_trait") == "std::cmp::Ord" and n.endswith("::cmp") and "SampledKey" in f.rec.get("self_ty", "")]
    ctx.floor("R06.3", "victim comparator", len(cmps), 1)
    for f in cmps:
        ctx.touch(f)
        r = f.origin_local(0)
        bad = []
        for fo, wo in itertools.product((-1, 0, 1), repeat=2):
            # fo: sign of self.freq - other.freq ; wo: sign of self.weight - other.weight
            try:
                got = eval_comparator(F, f, {"estimated_frequency": fo, "weight": wo})
            except ValueError as e:
                bad.append(str(e))
                break
            want = 1 if (fo < 0 or (fo == 0 and wo > 0)) else (-1 if (fo > 0 or (fo == 0 and wo < 0)) else 0)
            if got != want:
                bad.append("self.freq %s other.freq, self.weight %s other.weight -> %s, expected %s" % ("<=>"[fo + 1], "<=>"[wo + 1], got, want))
        ctx.check(not bad, "R06.3", "%s|min-frequency-heavier-first" % f.name,
                  "the comparator ranks a key greater iff its estimate is lower, or equal and it is heavier (9 abstract orderings): with a max-heap the coldest, then heaviest, key is popped first", f.where(), "; ".join(bad[:3]) or fmt(r))
    for n, f in F.fns.items():
        if f.rec.get("impl_trait") == "std::cmp::PartialOrd" and "SampledKey" in f.rec.get("self_ty", ""):
            r = f.origin_local(0)
            ok = r[0] == "agg" and r[2] == "Some" and r[3][0][1][0] == "call" and r[3][0][1][1].endswith("Ord>::cmp") and r[3][0][1][2] == (("param", 1), ("param", 2))
            ctx.check(ok, "R06.3", "%s|partial-cmp-agrees" % n, "partial_cmp is Some(cmp): the heap's `<=` uses the same order", f.where(), fmt(r))
    for pn in sorted(pop_fns):
        g = F.fn(pn)
        heap = [g.op_origin(t["args"][0]) for b, t in g.calls_to("BinaryHeap::<T, A>::pop")]
        ctx.check(len(heap) == 1 and heap[0][0] == "field" and heap[0][1] == ("param", 1), "R06.3", "%s|pop-from-sample-heap" % pn, "the victim is popped from the sample heap", g.where())

    # ---- R06.4 estimator agreement ----------------------------------------------------------------------
    sample_ctor_calls = []
    for en in sorted(evict_fns):
        f = F.fn(en)
        for b, t in f.calls():
            for a in t["args"]:
                o = f.op_origin(a)
                if o[0] == "agg" and o[1] in F.fns and F.fns[o[1]].kind == "Closure":
                    c = F.fns[o[1]]
                    r = c.origin_local(0)
                    tgt_, harg_ = call_target(F, c, r)
                    ok = est_callee is not None and tgt_ is not None and tgt_ == est_callee and harg_ == ("param", 2)
                    ctx.check(ok, "R06.4", "%s|sample-uses-same-estimator" % c.name,
                              "the estimator handed to the sampler is the same function that estimates the incoming key", c.where(), fmt(r))
                    sample_ctor_calls.append(c.name)
    ctx.floor("R06.4", "estimator closures handed to the sampler", len(sample_ctor_calls), 1)
    n_est = 0
    for n, f in F.fns.items():
        if "MinHeapSamples" not in f.rec.get("self_ty", ""):
            continue
        for b, t in f.calls():
            if t["callee"].startswith("std::ops::Fn") and t["res"] == "unresolved":
                n_est += 1
                arg = f.op_origin(t["args"][1])
                ok = mentions(arg, lambda s: s[0] == "field" and s[2] == "key_hash")
                ctx.check(ok, "R06.4", "%s|estimate-of-stored-hash" % n, "sampled keys are estimated from the hash recorded with their weight", f.where(b), fmt(arg))
    ctx.floor("R06.4", "estimator invocations in the sampler", n_est, 1)

    # ---- R06.8 (= C16 R16.7) the admission refusals are decided by the admission function alone: a second, different test
    # elsewhere (an API "fast path" refusing `weight + overhead > max`) rejects puts that fit
    import c16
    for o in ctx.own_of("c16"):
        if o["rule"] == "R16.7" and "refusal-built-only-in-admission" in o["key"]:
            ctx._add(o["status"], "R06.8", o["key"], o["desc"] + " [the decision table of R06.1 is the only place a put is refused for weight or space]", o["where"], o["detail"])

    # ---- R06.10 the estimate admission compares is the sketch's estimate of *that* hash: the estimator's forwarding chain
    # passes its hash argument on unchanged down to a function of the sketch type, and that hash is the configured hash of the key
    if est_callee is not None:
        chain_ok, cur = True, None
        for en in sorted(evict_fns):
            fe = inline.expand(F, F.fn(en), lambda n_: M.keep_in_expansion(n_) or n_ in pop_fns or n_ in dec_fns)
            for b, t in fe.calls():
                if t.get("rpath") in F.fns and ultimate_callee(F, t["rpath"]) == est_callee and t["rpath"] != est_callee:
                    cur = t["rpath"]
        # walk from the admission-side estimate function down: every hop forwards the hash parameter itself
        start = [n_ for n_ in F.fns if ultimate_callee(F, n_) == est_callee and n_ != est_callee]
        for n_ in start + [est_callee]:
            g_ = F.fns[n_]
            r_ = g_.origin_local(0)
            if n_ != est_callee:
                chain_ok = chain_ok and r_[0] == "call" and r_[2] and r_[2][-1][0] == "param"
        sk_ty = (F.fns[est_callee].rec.get("self_ty") or "") if est_callee in F.fns else ""
        ctx.check(chain_ok and ("TinyLFU" in sk_ty or "FrequencyCounter" in sk_ty), "R06.10", "estimator-is-the-sketch-estimate",
                  "the estimator admission uses ends, through forwarding functions that pass the hash on unchanged, in an estimate function of the sketch", detail="%s (self %s)" % (est_callee, sk_ty))
    import c10 as c10__
    c10__.configured_hash_rule(ctx, "R06.10")
    # ---- R06.9 (= C03 R03.7) "fits in the free space" is judged on the space that is really free
    import c03
    c03.retire_before_admission(ctx, "R06.9")

    # ---- R06.5 sampler discipline ------------------------------------------------------------------------
    # judged on the paths of the sampler's own functions with its private helpers inlined (a per-key `include(pair)` helper is
    # part of the refill loop)
    from core import lt_truth
    n_push = n_refill = 0
    is_push = lambda e: e.generic.endswith("BinaryHeap::<T, A>::push")
    is_ins = lambda e: e.generic.endswith("HashSet::<T, S, A>::insert")
    is_has = lambda e: e.generic.endswith("HashSet::<T, S, A>::contains")
    samp = {}
    for n, f in F.fns.items():
        if f.kind == "Closure" or "MinHeapSamples" not in f.rec.get("self_ty", ""):
            continue
        own_ = (f.rec.get("self_ty") or "").split("<")[0]
        ps = ipaths(F, f, stop=lambda x: not (x in F.fns and (F.fns[x].rec.get("self_ty") or "").split("<")[0] == own_), depth=2)
        if any(any(is_push(e) for e in p.events) for p in ps):
            samp[n] = (f, ps)
    outer_s = [n for n in samp if not any(t.get("rpath") == n for m in samp if m != n for b, t in samp[m][0].calls())]
    for n in sorted(outer_s):
        f, ps = samp[n]
        ctx.touch(f)
        n_push += 1
        bad_pair, bad_dup, bad_stop = [], [], []
        refill = any(any(is_has(e) for e in p.events) for p in ps)
        bounded = False
        for p in ps:
            pushes = [e for e in p.events if is_push(e)]
            inserts = [e for e in p.events if is_ins(e)]
            if len(pushes) != len(inserts):
                bad_pair.append(p)
            for a in p.atoms:
                if a[0] == "bool" and a[1][0] == "binop" and a[1][1] in ("Lt", "Le") and (mentions(a[1], lambda s_: s_[0] == "field" and s_[2] == "sample_size") or mentions(a[1], lambda s_: s_ == ("param", 2))):
                    bounded = True
            if refill:
                for e in pushes:
                    tested = [a for a in p.atoms if a[0] == "bool" and is_call_to(a[1], "HashSet::<T, S, A>::contains") and a[4] < e.seq]
                    if not tested or tested[-1][2]:
                        bad_dup.append(p)
                full = [lt_truth(a, lambda z: is_call_to(z, "BinaryHeap::<T, A>::len"), lambda z: z[0] == "field" and z[2] == "sample_size") for a in p.atoms]
                exhausted = [a for a in p.atoms if a[0] == "enum" and is_call_to(a[1], "::next") and a[2] == ("None",)]
                if not any(x is False for x in full) and not exhausted:
                    bad_stop.append(p)
        ctx.check(not bad_pair, "R06.5", "%s|push-paired-with-id-insert" % n, "every key pushed into the sample is recorded in the sample's id set", f.where(), "; ".join(q.show() for q in bad_pair[:2]))
        if refill:
            n_refill += 1
            # where the push is written in the refill function itself, dominance speaks about every iteration (the paths
            # above run the loop body at most once): the push must lie under the false edge of the membership test
            dom_bad = []
            own_pushes = [b for b, t in f.calls() if t["callee"].endswith("BinaryHeap::<T, A>::push")]
            guards = [(b, ft) for b, expr, tt, ft in bool_branches(f) if expr[0] == "call" and expr[1].endswith("HashSet::<T, S, A>::contains")]
            for pb in own_pushes:
                if not guards or not all(f.edge_dominates(e_, pb) for e_ in guards):
                    dom_bad.append(f.where(pb))
            ctx.check(not bad_dup and not dom_bad, "R06.5", "%s|no-duplicate-in-sample" % n, "on refill a key is pushed only if its id is not already in the sample", f.where(),
                      "; ".join([q.show() for q in bad_dup[:2]] + dom_bad[:2]))
            ctx.check(not bad_stop, "R06.5", "%s|refill-stops-only-when-full-or-exhausted" % n,
                      "the refill returns only after the sample is full again (sample.len() >= sample_size) or the source iterator is exhausted", f.where(),
                      "; ".join(q.show() for q in bad_stop[:2]))
        ctx.check(bounded, "R06.5", "%s|bounded-by-sample-size" % n, "sampling is bounded by the configured sample size", f.where())
    ctx.floor("R06.5", "sample push sites", n_push, 1)
    ctx.floor("R06.5", "sample refill functions", n_refill, 1)
    for pn in sorted(pop_fns):
        g = F.fn(pn)
        rm = g.calls_to("std::collections::HashSet::<T, S, A>::remove")
        ctx.check(len(rm) == 1 and mentions(g.op_origin(rm[0][1]["args"][1]), lambda s: s[0] == "field" and s[2] == "id"), "R06.5", "%s|pop-forgets-id" % pn,
                  "popping a victim removes its id from the sample's id set", g.where())
    # ---- R06.6 -------------------------------------------------------------------------------------------
    size = [v for k, v in F.consts.items() if k.endswith("EVICTION_SAMPLE_SIZE")]
    used = False
    for en in evict_fns:
        f = F.fn(en)
        for b, t in f.calls():
            if any(f.op_origin(a) == ("const", size[0]["v"], "usize") for a in t["args"]) if size else False:
                used = True
    ctx.check(bool(size) and size[0]["v"] >= 1 and used, "R06.6", "sample-size-positive", "the eviction sample size constant is >= 1 and is what the loop samples with", detail=str(size))


def is_max(e):
    return isinstance(e, tuple) and e[0] == "field" and e[2] == "max_weight" or (isinstance(e, tuple) and e[0] == "call" and "max" in e[1])


def eval_ordering(e, signs, F_=None):
    """abstractly evaluate an Ordering-valued expression of a comparator fn(self=param1, other=param2):
    signs[field] = sign(self.field - other.field); returns sign of the Ordering (-1 Less, 0 Equal, 1 Greater)"""
    if e[0] == "call" and (e[1].endswith("Ord>::cmp") or e[1].endswith("Ord::cmp") or "impl std::cmp::Ord for" in e[1]):
        a, b = e[2]
        return cmp_values(a, b, signs)
    if e[0] == "call" and e[1].endswith("Ordering::then"):
        first = eval_ordering(e[2][0], signs, F_)
        return first if first != 0 else eval_ordering(e[2][1], signs, F_)
    if e[0] == "call" and e[1].endswith("Ordering::reverse"):
        return -eval_ordering(e[2][0], signs, F_)
    if e[0] == "call" and e[1].endswith("Ordering::then_with") and len(e[2]) == 2 and e[2][1][0] == "agg" and F_ is not None and e[2][1][1] in F_.fns:
        first = eval_ordering(e[2][0], signs, F_)
        if first != 0:
            return first
        from sym import _subst
        c = F_.fns[e[2][1][1]]
        return eval_ordering(_subst(c.origin_local(0), [e[2][1]]), signs, F_)
    if e[0] == "agg" and e[1].endswith("cmp::Ordering") and e[2] in ("Less", "Equal", "Greater"):
        return {"Less": -1, "Equal": 0, "Greater": 1}[e[2]]
    raise ValueError("comparator shape not understood: %s" % fmt(e)[:80])


def eval_comparator(F, f, signs):
    """sign of the Ordering a comparator returns under the given field orderings: the one path of f (helpers and
    closures inlined) whose branch atoms are consistent with them, its result evaluated abstractly"""
    names = {-1: "Less", 0: "Equal", 1: "Greater"}
    got = set()
    for p in ipaths(F, f, stop=lambda n: False, depth=2):
        ok = True
        for a in p.atoms:
            if a[0] == "bool" and a[1][0] == "binop" and a[1][1] in ("Lt", "Le", "Eq", "Ne"):
                s_ = cmp_values(a[1][2], a[1][3], signs)
                truth = {"Lt": s_ < 0, "Le": s_ <= 0, "Eq": s_ == 0, "Ne": s_ != 0}[a[1][1]]
                ok = ok and truth == a[2]
            elif a[0] == "bool" and a[1][0] == "call" and a[1][1].endswith("PartialOrd::le"):
                ok = ok and (cmp_values(a[1][2][0], a[1][2][1], signs) <= 0) == a[2]
            elif a[0] == "enum":
                v = names[eval_ordering(a[1], signs, F)]
                pos = [n for n in a[2] if not n.startswith("!")]
                neg = [n[1:] for n in a[2] if n.startswith("!")]
                ok = ok and ((v in pos) if pos else (v not in neg))
            else:
                raise ValueError("comparator test not understood: %s" % fmt(a[1])[:80])
        if ok:
            got.add(eval_ordering(p.ret, signs, F))
    if len(got) != 1:
        raise ValueError("comparator has %d consistent outcomes" % len(got))
    return got.pop()


def cmp_values(a, b, signs):
    if a[0] == "agg" and b[0] == "agg" and a[1] == "tuple" and b[1] == "tuple" and len(a[3]) == len(b[3]):
        for (_, x), (_, y) in zip(a[3], b[3]):
            s = cmp_values(x, y, signs)
            if s != 0:
                return s
        return 0
    if a[0] == "field" and b[0] == "field" and a[2] == b[2] and a[2] in signs and {a[1], b[1]} == {("param", 1), ("param", 2)}:
        s = signs[a[2]]
        return s if a[1] == ("param", 1) else -s
    raise ValueError("comparator operand not understood: %s vs %s" % (fmt(a)[:40], fmt(b)[:40]))


def kd_param(f):
    """the parameter carrying the incoming key's description (by type, wherever it sits in the parameter list)"""
    ks = [i for i in range(1, f.argc + 1) if "KeyDescription<" in f.locals[i]["ty"]]
    return ("param", ks[0]) if len(ks) == 1 else None


def call_target(F, fn, r, depth=0):
    """(innermost local function, argument) a call expression of fn ends up in: a direct call, or a call of a callable
    value (a closure that only forwards its argument, a captured callable, a parameter bound to the same callable at every
    call site); (None, None) when unknown"""
    if not (isinstance(r, tuple) and r and r[0] == "call") or depth > 6:
        return None, None
    if r[1] in F.fns and r[2]:
        return ultimate_callee(F, r[1]), r[2][-1]
    if r[1].startswith(("std::ops::Fn", "<std::boxed::Box<F, A> as std::ops::Fn")) and len(r[2]) == 2 and r[2][1][0] == "agg" and len(r[2][1][3]) == 1:
        return callable_target(F, fn, r[2][0], depth + 1), r[2][1][3][0][1]
    return None, None


def callable_target(F, fn, c, depth=0):
    from core import peel_identity
    if depth > 6:
        return None
    c = peel_identity(c)
    while c[0] in ("ref", "deref") and len(c) >= 2 and isinstance(c[1], tuple):
        c = c[1]
    if c[0] == "agg" and c[1] in F.fns and F.fns[c[1]].kind == "Closure":
        cl = F.fns[c[1]]
        tgt, a = call_target(F, cl, cl.origin_local(0), depth + 1)
        return tgt if a == ("param", 2) else None
    if c[0] == "fnconst":
        return ultimate_callee(F, c[1])
    if c[0] == "param":
        sites = [(g, t) for g in F.fns.values() for b, t in g.calls() if t.get("rpath") == fn.name and t["res"] == "item"]
        tg = {callable_target(F, g, g.op_origin(t["args"][c[1] - 1]), depth + 1) for g, t in sites if len(t["args"]) >= c[1]}
        return next(iter(tg)) if len(tg) == 1 else None
    if c[0] == "field" and c[1] == ("env",):
        cc = closure_captures(F, fn.name)
        if cc and c[2] in cc[1]:
            return callable_target(F, cc[0], cc[1][c[2]], depth + 1)
    return None


def ultimate_callee(F, name, depth=0):
    """follow forwarding wrappers (`estimate(h) = self.inner.read().estimate(h)`) to the innermost estimator"""
    f = F.fns.get(name)
    if f is None or depth > 4:
        return name
    r = f.origin_local(0)
    if r[0] == "call" and r[1] in F.fns and r[2] and r[2][-1][0] == "param":
        return ultimate_callee(F, r[1], depth + 1)
    return name
