"""Element loops (A7): one vocabulary for "do this for every element of that collection", whichever way it is written.

Recognised forms, in a function f:
  * `it.for_each(closure)` / `it.for_each(path::to::fn)`                       (sink "for_each")
  * `for x in it { .. }`  (MIR: loop around `Iterator::next(it)`, body on the Some edge)  (sink "for")
  * `it.map(closure).min()` / `.max()` / `.sum()` / `.all()` / `.any()`           (sink = that consumer)
  * `let mut i = a; while i < b { .. ; i += 1 }`  (a counter stepped by one at the back edge)   (sink "while", source range a..b)
where `it` is built from
  * `coll.iter()` / `coll.iter_mut()` / `coll.into_iter()`  -> every element of coll          source ("all", coll)
  * `a..b`                                                  -> every index a <= i < b        source ("range", a, b)
  * `x.zip(y)`                                              -> elements of x and y at the same position (sources in order)
  * `.copied()` / `.cloned()` / `.by_ref()`                  -> transparent
An ElemLoop gives the loop's sources and its body as symbolic paths (sym.py) in f's own terms in which the element of
source k at the current iteration is the token ("elem", k): closure captures and fn-item parameters are substituted,
tuple patterns of a zip are projected, so a rule can ask "is inc(row element, (hash ^ seed element) % n) called once per
iteration" without caring about closures, indices or zips.
"""
from core import strip_site, subexprs, mentions, project, downcast, is_call_to, back_edge_heads, fmt
from sym import Engine, SPath, Ev, _subst


def ELEM(k):
    return ("elem", k)


def parse_iter(e, depth=0):
    """iterator expression -> list of sources, or None"""
    if not isinstance(e, tuple) or not e or depth > 6:
        return None
    if e[0] == "agg" and e[1].endswith("Range") and e[2] in ("", "Range"):
        d = dict(e[3])
        if "start" in d and "end" in d:
            return [("range", d["start"], d["end"])]
        return None
    if e[0] != "call" or not e[2]:
        return None
    name = e[1]
    last = name.split("::")[-1]
    if last in ("iter", "iter_mut") and len(e[2]) == 1 and ("slice" in name or "Vec" in name or "[T]" in name or "array" in name or "VecDeque" in name):
        return [("all", e[2][0])]
    if last == "into_iter" and len(e[2]) == 1:
        inner = parse_iter(e[2][0], depth + 1)
        return inner if inner is not None else [("all", e[2][0])]
    if last == "zip" and len(e[2]) == 2:
        a, b = parse_iter(e[2][0], depth + 1), parse_iter(e[2][1], depth + 1)
        if a is None or b is None:
            return None
        return [("zip", a, b)]
    if last in ("copied", "cloned", "by_ref", "rev") and len(e[2]) == 1:
        return parse_iter(e[2][0], depth + 1)
    return None


def flatten(sources):
    """[('zip', a, b)] -> flat list of leaf sources and the item expression tree over ('elem', k) tokens"""
    leaves = []

    def go(srcs):
        if len(srcs) == 1 and srcs[0][0] == "zip":
            a = go(srcs[0][1])
            b = go(srcs[0][2])
            return ("agg", "tuple", "", (("0", a), ("1", b)))
        leaves.append(srcs[0])
        return ELEM(len(leaves) - 1)
    item = go(sources)
    return leaves, item


class ElemLoop:
    def __init__(self, fn, bb, sink, leaves, item, bodies, extra=None):
        self.fn, self.bb, self.sink, self.sources, self.item, self.bodies, self.extra = fn, bb, sink, leaves, item, bodies, extra

    def where(self):
        return self.fn.where(self.bb)

    def over_all(self, coll_pred):
        """index k of the source that runs over every element of a collection satisfying coll_pred, else None"""
        for k, s in enumerate(self.sources):
            if s[0] == "all" and coll_pred(s[1]):
                return k
        return None

    def __repr__(self):
        return "ElemLoop(%s@%s %s over %s)" % (self.fn.name.split("::")[-1], self.bb, self.sink, [fmt(s[1])[:30] for s in self.sources])


def _rewrite(e, target, repl):
    """replace every occurrence of `target` (sites ignored) in e by repl, re-normalising projections"""
    if not isinstance(e, tuple) or not e:
        return e
    if strip_site(e) == target:
        return repl
    if e[0] == "field":
        return project(_rewrite(e[1], target, repl), e[2])
    if e[0] == "variant":
        return downcast(_rewrite(e[1], target, repl), e[2])
    return tuple(_rewrite(x, target, repl) if isinstance(x, tuple) else x for x in e)


def elem_loops(F, f, stop=None, depth=2):
    """all element loops written in f (not in its closures)"""
    out = []
    eng = Engine(F, stop or (lambda n: False), depth, 3000)
    consumers = ("for_each", "min", "max", "sum", "all", "any", "count", "try_for_each", "fold", "collect")
    for b, t in f.calls():
        last = t["callee"].split("::")[-1]
        is_extend = t["callee"] == "std::iter::Extend::extend" and len(t["args"]) == 2
        if (t["callee"].startswith("std::iter::Iterator::") and last in consumers and t["args"]) or is_extend:
            it = f.op_origin(t["args"][1 if is_extend else 0])
            adaptors = []
            cur = it
            while cur[0] == "call" and cur[1].split("::")[-1] in ("map", "filter", "inspect") and cur[1].startswith("std::iter::Iterator::") and len(cur[2]) == 2:
                adaptors.append((cur[1].split("::")[-1], cur[2][1]))
                cur = cur[2][0]
            srcs = parse_iter(cur)
            if srcs is None:
                continue
            leaves, item = flatten(srcs)
            body_clo = None
            if last in ("for_each", "all", "any", "try_for_each") and len(t["args"]) == 2:
                body_clo = f.op_origin(t["args"][1])
            elif adaptors:
                body_clo = adaptors[-1][1]          # innermost map closure sees the raw item
            bodies = None
            if last == "fold" and len(t["args"]) == 3 and not adaptors:
                # fold(init, |acc, x| ..): the closure is the per-element body (its accumulator stays symbolic)
                cp = eng.closure_paths(f.op_origin(t["args"][2]), [("unknown", "acc"), item], depth, (f.name,))
                if cp is not None:
                    bodies = [SPath(f, [b], atoms, events, stores, val, [b]) for atoms, events, stores, val in cp]
            if body_clo is not None:
                cp = eng.closure_paths(body_clo, [item], depth, (f.name,))
                if cp is None and body_clo[0] == "fnconst":
                    # a function item that stays opaque (a rule's vocabulary): one call of it per element
                    ev = Ev(f, b, t, body_clo[1], body_clo[1], (item,), ("call", body_clo[1], (item,), (f.name, b)), depth, False, 1)
                    cp = [([], [ev], [], ev.res)]
                if cp is not None:
                    bodies = [SPath(f, [b], atoms, events, stores, val, [b]) for atoms, events, stores, val in cp]
            extra = {"adaptors": adaptors, "result": f.origin_call(b, t)}
            if last == "fold" and len(t["args"]) == 3:
                extra["fold_init"] = f.op_origin(t["args"][1])
                extra["fold_fn"] = f.op_origin(t["args"][2])
            out.append(ElemLoop(f, b, "extend" if is_extend else last, leaves, item, bodies, extra=extra))
    # `for` loops: a call to Iterator::next inside a CFG cycle whose result is matched on
    heads = back_edge_heads(f)
    for b, t in f.calls():
        if not (t.get("rpath", "") or t["callee"]).endswith("::next") or "Iterator" not in ((t.get("rpath") or "") + t["callee"]):
            continue
        if t.get("target") is None or b not in f.reach_after(b):
            continue
        it = f.op_origin(t["args"][0])
        srcs = parse_iter(it)
        if srcs is None:
            continue
        leaves, item = flatten(srcs)
        nres = strip_site(f.origin_call(b, t))
        pay = ("field", ("variant", nres, "Some"), "0")
        # body paths: from the Some edge back to the next() block (one iteration), executed symbolically
        ps = eng.run(f, depth, (f.name,), start=t["target"], ends={b})
        bodies = []
        for p in ps or []:
            if p.variant_of(f.origin_call(b, t)) == ("None",):
                continue
            ev2 = []
            for e in p.events:
                e.args = tuple(_rewrite(a, pay, item) for a in e.args)
                e.res = _rewrite(e.res, pay, item)
                ev2.append(e)
            st2 = [(_rewrite(tg, pay, item), _rewrite(v, pay, item), w) for tg, v, w in p.stores]
            at2 = [(a[0], _rewrite(a[1], pay, item), a[2], a[3], a[4]) for a in p.atoms]
            bodies.append(SPath(f, p.blocks, at2, ev2, st2, _rewrite(p.ret, pay, item), p.trace, {l_: _rewrite(v_, pay, item) for l_, v_ in p.env.items()}))
        # an iteration that only reaches the exit (None edge) is not a body
        bodies = [p for p in bodies if len(p.blocks) > 1] or bodies
        out.append(ElemLoop(f, b, "for", leaves, item, bodies, extra={"next": nres}))
    # counter loops: the guard `i < bound` of a cycle whose `i` is `phi(init, i + 1)` and whose bound does not change
    from core import bool_branches
    for gb, expr, tt, ft in bool_branches(f):
        if not (expr[0] == "binop" and expr[1] == "Lt" and expr[2][0] == "phi" and len(expr[2][1]) == 2):
            continue
        if gb not in f.reach_after(gb) or gb not in f.reach([tt]) or gb in f.reach([ft], avoid_blocks=[gb]) and ft in f.reach([tt], avoid_blocks=[gb]):
            continue
        members = list(expr[2][1])
        step = [m for m in members if m[0] == "binop" and m[1] == "Add" and m[2] == ("const", 1, m[2][2] if len(m[2]) > 2 else None) and m[3][0] == "var"]
        init = [m for m in members if m not in step]
        bound = expr[3]
        if len(step) != 1 or len(init) != 1 or mentions(init[0], lambda s_: s_[0] in ("var", "phi")) or mentions(bound, lambda s_: s_[0] in ("var", "phi")):
            continue
        leaves, item = [("range", init[0], bound)], ELEM(0)
        tgt = strip_site(expr[2])
        ps = eng.run(f, depth, (f.name,), start=tt, ends={gb})
        bodies = []
        for p in ps or []:
            for e in p.events:
                e.args = tuple(_rewrite(a, tgt, item) for a in e.args)
                e.res = _rewrite(e.res, tgt, item)
            st2 = [(_rewrite(tg, tgt, item), _rewrite(v, tgt, item), w) for tg, v, w in p.stores]
            at2 = [(a[0], _rewrite(a[1], tgt, item), a[2], a[3], a[4]) for a in p.atoms]
            bodies.append(SPath(f, p.blocks, at2, list(p.events), st2, _rewrite(p.ret, tgt, item), p.trace, {l_: _rewrite(v_, tgt, item) for l_, v_ in p.env.items()}))
        out.append(ElemLoop(f, gb, "while", leaves, item, bodies, extra={"counter": step[0][3]}))
    return out
