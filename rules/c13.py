"""C13 — shutdown refuses new work, answers every pending command, never blocks.  (DESIGN §4 C13)"""
from core import (bool_branches, bool_branch, site_effects, is_effectful, is_call_to, fmt, enum_paths, path_return,
                  ret_variant, path_atoms, variant_edges, strip_site, subexprs, const_of, mentions)
from ackmodel import AckModel, worker_root
import c11

WITNESSES = ['W6ExecutorUnreachable']
from sym import ipaths

LEVEL = "proof"
EXPLANATION = ("Flag-first table over the public API of the cache type (every call that touches cache state is "
               "dominated by the false edge of the shutdown-flag check and the true edge returns the refusal value "
               "without effects), once-only shutdown body behind the compare_exchange success edge with "
               "Release/Acquire orderings, the worker's drain loop answers every later command with ShuttingDown and "
               "exits only on disconnection, blocking sends are never made under a lock and a failed send surfaces "
               "as Err.")
ASSUMPTIONS = ["a live worker thread is eventually scheduled (fairness is not decided)",
               "a send to a disconnected crossbeam channel fails fast"]

# public methods of the cache type that are not required to test the flag, one line of reason each
EXEMPT = {
    "new": "constructor: there is no cache yet",
    "shutdown": "sets the flag itself (R13.2)",
    "total_weight_used": "observer of a counter, neither reads nor writes keys",
    "stats_summary": "observer of counters, neither reads nor writes keys",
}


def cache_adt(F):
    for name, adt in F.adts.items():
        if adt["kind"] == "Struct" and adt["reachable"]:
            fs = adt["variants"][0]["fields"]
            if any("CommandExecutor<" in f["ty"] for f in fs):
                flags = [f["name"] for f in fs if "Atomic<bool>" in f["ty"] or "AtomicBool" in f["ty"]]
                if len(flags) == 1:
                    return name, flags[0]
    return None


def ordering(e):
    return e[2] if isinstance(e, tuple) and e[0] == "agg" and "atomic::Ordering" in e[1] else None


def run(ctx):
    F = ctx.facts
    ca = cache_adt(F)
    if not ca:
        ctx.bad("R13.0", "cache-adt", "the cache type (public struct owning the command executor and one atomic flag) was not found", detail="ANCHOR-MISSING")
        return
    cname, FLAG = ca
    short = cname.split("::")[-1]

    # flag loads (direct or through an accessor)
    load_fns = set()
    for name, f in F.fns.items():
        for bb, t in f.calls_to("std::sync::atomic::Atomic::<bool>::load"):
            o = f.op_origin(t["args"][0])
            if o[0] == "field" and o[2] == FLAG and f.argc >= 1 and short in f.locals[1]["ty"]:
                od = ordering(f.op_origin(t["args"][1]))
                ctx.ok("R13.2", "%s|flag-load-ordering" % name, "shutdown flag load ordering recorded: %s (a call that starts after shutdown() returned sees the flag by coherence, whatever the ordering)" % od, f.where(bb), str(od))
                r = f.origin_local(0)
                if r[0] == "call" and "Atomic::<bool>::load" in r[1]:
                    load_fns.add(name)
    ctx.floor("R13.1", "shutdown-flag accessor", len(load_fns), 1)

    def flag_edges(f):
        """edges after which the flag was observed false / true"""
        fe, te = [], []
        for b, expr, tt, ft in bool_branches(f):
            parts = [expr]
            # `a || flag()` lowers to nested switches; each is seen separately
            e = expr
            neg = False
            if e[0] == "unop" and e[1] == "Not":
                e, neg = e[2], True
            direct = e[0] == "call" and (e[1] in load_fns or ("Atomic::<bool>::load" in e[1] and e[2] and e[2][0][0] == "field" and e[2][0][2] == FLAG))
            if direct:
                fe.append((b, tt if neg else ft))
                te.append((b, ft if neg else tt))
        return fe, te

    # ---- R13.1 -------------------------------------------------------------------------------
    methods = []
    for name, f in F.fns.items():
        if not f.rec.get("reachable") or f.kind == "Closure":
            continue
        st = f.rec.get("self_ty", "")
        holds_cache = st.startswith(cname) or any(short + "<" in F.adts.get(a, {}).get("variants", [{}])[0].get("fields", [{}])[0].get("ty", "") for a in [] )
        is_iter = f.rec.get("impl_trait") == "std::iter::Iterator" and cache_reaching_iter(F, st, cname)
        if holds_cache or is_iter:
            methods.append((name, f, is_iter))
    ctx.floor("R13.1", "public methods of the cache type", len([1 for n, f, it in methods if not it]), 17)
    flag_first = set()
    pending = []
    for name, f, is_iter in methods:
        mname = name.split("::")[-1]
        if not is_iter and mname in EXEMPT:
            ctx.ok("R13.1", "%s|exempt" % name, "exempt from the flag-first rule: %s" % EXEMPT[mname], f.where())
            continue
        pending.append((name, f))
    # forwarding needs the set of flag-first methods: iterate to fixpoint.  Judged on path-sensitive paths with the cache
    # type's own private helpers and closures inlined (a `with_check(|| ..)` helper, an extracted guard clause, an early
    # return and a combinator chain all look the same); other public methods and everything outside the type stay opaque
    method_names = {n for n, f, it in methods}

    def is_flag_expr(e):
        return e[0] == "call" and (e[1] in load_fns or ("Atomic::<bool>::load" in e[1] and e[2] and e[2][0][0] == "field" and e[2][0][2] == FLAG))
    verdicts = {}
    for _ in range(4):
        for name, f in pending:
            def stop(n, me=name):
                if n in load_fns or (n in method_names and n != me):
                    return True
                g = F.fns.get(n)
                return not (g is not None and (g.kind == "Closure" or (g.rec.get("self_ty") or "").startswith(cname)))
            paths = ipaths(F, f, stop=stop, depth=2)
            bad, refuse_bad, vals = [], [], set()
            eff_sites = set()
            has_check = False
            seen_fns = set()
            for p in paths:
                flags = [a for a in p.atoms if a[0] == "bool" and is_flag_expr(a[1])]
                has_check = has_check or bool(flags)
                for e in p.events:
                    seen_fns.add(e.fn.name)
                    if e.log or is_flag_expr(e.res) or not is_effectful(site_effects(F, e.fn, e.bb)):
                        continue
                    eff_sites.add((e.fn.name, e.bb))
                    if e.callee in flag_first:
                        continue          # forwards to a method that tests the flag itself
                    if any((not a[2]) and a[4] < e.seq for a in flags):
                        continue          # the flag was observed false before
                    bad.append((e.fn, e.bb, e.t))
                set_ = [a for a in flags if a[2]]
                if set_:
                    for e in p.events:
                        if not e.log and e.seq > set_[0][4] and not is_flag_expr(e.res) and is_effectful(site_effects(F, e.fn, e.bb)):
                            refuse_bad.append(e.where())
                    v = p.ret_variant()
                    r = p.ret
                    if not v and r[0] == "call" and r[1] in F.fns:
                        # a local helper building the refusal value: look at what it returns
                        vs = {q.ret_variant() for q in ipaths(F, F.fns[r[1]], stop=lambda n_: False, depth=1)}
                        if len(vs) == 1 and None not in vs:
                            v = vs.pop()
                    vals.add(v[0] if v else (r[1].split("::")[-1] if r[0] == "call" else fmt(r)[:30]))
            # closures the paths did not run (handed to iterator adaptors ..): their creation site must follow the check
            fe, te = flag_edges(f)
            spliced = {cn for gn, hn, cn in getattr(F, "inlined", []) if gn == name}
            for c in F.closures_of(f):
                if c.name in seen_fns or c.name in spliced:
                    continue        # run on the paths above (directly, or spliced into f by the A9 pass)
                for bb, t in c.calls():
                    if not is_effectful(site_effects(F, c, bb)):
                        continue
                    eff_sites.add((c.name, bb))
                    if t.get("rpath") in flag_first:
                        continue
                    made = [b for b in sorted(f.live_blocks()) for s_ in f.blocks[b]["stmts"]
                            if s_["k"] == "assign" and s_["rv"]["k"] == "agg" and s_["rv"].get("closure") == c.name]
                    if made and fe and all(b not in f.reach([0], avoid_edges=fe) for b in made):
                        continue
                    bad.append((c, bb, t))
            verdicts[name] = (f, bad, refuse_bad, len(eff_sites), has_check, vals)
            if not bad and (has_check or not eff_sites):
                flag_first.add(name)
    for name, (f, bad, refuse_bad, n_eff, has_check, vals) in sorted(verdicts.items()):
        ctx.touch(f)
        ctx.check(not bad, "R13.1", "%s|flag-first" % name,
                  "every call that touches cache state (store, queues, pool, locks) is made only after the shutdown flag was observed false, or forwards to a method that does so (%d effectful call sites)" % n_eff,
                  f.where(), "; ".join("%s calls %s at %s" % (g.name.split("::")[-1], t.get("rpath") or t["callee"], g.where(bb)) for g, bb, t in bad[:3]))
        if has_check:
            ctx.check(not refuse_bad, "R13.1", "%s|refusal-effect-free" % name,
                      "after observing the flag set the method returns without touching cache state", f.where(), str(refuse_bad[:3]))
            ctx.check(vals <= {"Err", "None", "new"} and vals, "R13.1", "%s|refusal-value" % name,
                      "the refusal value is Err(..) / None / an empty map", f.where(), str(sorted(vals)))
    n_checked = len([1 for n, v in verdicts.items() if v[4]])
    ctx.floor("R13.1", "methods testing the shutdown flag themselves", n_checked, 11)

    # ---- R13.2 shutdown body -------------------------------------------------------------------
    n_cx = 0
    for name, f in F.fns.items():
        for bb, t in f.calls_to("std::sync::atomic::Atomic::<bool>::compare_exchange"):
            o = f.op_origin(t["args"][0])
            if not (o[0] == "field" and o[2] == FLAG):
                continue
            n_cx += 1
            ctx.touch(f)
            cur, new = const_of(f.op_origin(t["args"][1])), const_of(f.op_origin(t["args"][2]))
            so = ordering(f.op_origin(t["args"][3]))
            ctx.check(cur == 0 and new == 1, "R13.2", "%s|cas-false-true-release" % name,
                      "shutdown sets the flag with one compare_exchange(false, true): the atomic read-modify-write, not its ordering, is what makes the body run once", f.where(bb), "(%s,%s,%s)" % (cur, new, so))
            # per path (private helpers are merged, a local enum carrying the outcome is decided path-sensitively): anything
            # effectful happens only after this compare_exchange succeeded, and the success path queues exactly one Shutdown
            A = AckModel(ctx)
            senders = set(A.send_fns)
            ch = True
            while ch:
                ch = False
                for n2, g in F.fns.items():
                    if n2 not in senders and g.kind != "Closure" and any(tt.get("rpath") in senders for b2, tt in g.calls()):
                        senders.add(n2)
                        ch = True
            bad_once, bad_send = [], []
            n_eff = n_succ = 0
            for p in ipaths(F, f, stop=lambda n_: n_ in F.fns and F.fns[n_].kind != "Closure", depth=1):
                cas = [e for e in p.events if e.fn is f and e.bb == bb]
                if not cas:
                    if any(not e.log and is_effectful(site_effects(F, e.fn, e.bb)) for e in p.events):
                        bad_once.append("effects on a path that never attempts the flag transition")
                    continue
                v = p.variant_of(cas[0].res)
                eff = [e for e in p.events if not e.log and e is not cas[0] and is_effectful(site_effects(F, e.fn, e.bb))]
                n_eff += len(eff)
                if eff and v != ("Ok",):
                    bad_once.append("effectful call %s without the transition having succeeded" % eff[0].callee.split("::")[-1])
                if any(e.seq < cas[0].seq for e in eff):
                    bad_once.append("effectful call before the flag transition")
                if v == ("Ok",):
                    n_succ += 1
                    if len(p.calls(senders)) != 1:
                        bad_send.append("%d commands queued on the success path" % len(p.calls(senders)))
            ctx.check(not bad_once and n_eff >= 1, "R13.2",
                      "%s|body-once" % name, "the shutdown body (queueing Shutdown, stopping threads, clearing) runs only on the compare_exchange success edge: once per cache",
                      f.where(bb), "; ".join(sorted(set(bad_once))[:2]) or "effectful events=%d" % n_eff)
            ctx.check(not bad_send and n_succ >= 1, "R13.2", "%s|queues-shutdown" % name,
                      "the success path queues exactly one Shutdown command", f.where(bb), "; ".join(sorted(set(bad_send))[:2]))
    # alternative idiom: `if flag.swap(true, ..) { return }`
    for name, f in F.fns.items():
        for bb, t in f.calls_to("std::sync::atomic::Atomic::<bool>::swap"):
            o = f.op_origin(t["args"][0])
            if not (o[0] == "field" and o[2] == FLAG):
                continue
            n_cx += 1
            ctx.touch(f)
            new_v = const_of(f.op_origin(t["args"][1]))
            so = ordering(f.op_origin(t["args"][2]))
            ctx.check(new_v == 1 and so in ("AcqRel", "SeqCst", "Release"), "R13.2", "%s|swap-true-release" % name, "shutdown sets the flag with swap(true, Release or stronger)", f.where(bb), "(%s,%s)" % (new_v, so))
            sw = f.origin_call(bb, t)
            succ = [(b, ft) for b, expr, tt, ft in bool_branches(f) if strip_site(expr) == strip_site(sw)]
            eff_sites = [b for b, tt in f.calls() if is_effectful(site_effects(F, f, b)) and b != bb]
            ctx.check(bool(succ) and all(b not in f.reach([0], avoid_edges=succ) for b in eff_sites) and len(eff_sites) >= 1, "R13.2", "%s|body-once" % name,
                      "the shutdown body runs only when the previous flag value was false: once per cache", f.where(bb))
    ctx.check(n_cx == 1, "R13.2", "one-shutdown-entry", "the flag is set at exactly one site (compare_exchange / swap in shutdown)", detail=str(n_cx))
    # nobody else writes the flag
    stores = []
    for name, f in F.fns.items():
        for bb, t in f.calls_to("std::sync::atomic::Atomic::<bool>::store", "Atomic::<bool>::fetch_"):
            o = f.op_origin(t["args"][0])
            if o[0] == "field" and o[2] == FLAG and f.argc >= 1 and short in f.locals[1]["ty"]:
                stores.append(f.where(bb))
    ctx.check(not stores, "R13.2", "flag-never-reset", "the shutdown flag is never stored to outside the compare_exchange (it cannot be reset)", detail=str(stores))

    # ---- R13.3 drain ------------------------------------------------------------------------------
    A = AckModel(ctx)
    W = c11.find_worker(ctx, A)
    if W is None:
        ctx.bad("R13.3", "worker", "the command worker closure was not found", detail="ANCHOR-MISSING")
    else:
        c11.worker_loop(ctx, A, W, "R13.3", drain_liveness=True)
        from ackmodel import thread_roots
        sp_ = F.spawn_closures()
        drains = [(f, bb) for f, bb, t, m in A.recv_sites if m == "iter_next" and thread_roots(F, f.name, sp_) == {W.name}]
        n_foreach = len([bb for f, bb, t, m in A.recv_sites if m == "iter_for_each" and thread_roots(F, f.name, sp_) == {W.name}])
        ctx.floor("R13.3", "drain receive sites in the worker", len(drains) + n_foreach, 1)
        for DW, bb in drains:
            t = DW.term(bb)
            ve = variant_edges(DW, t["target"])
            ok = False
            if ve:
                some = [tgt for n, tgt in ve[1] if n == "Some"]
                ok = bool(some) and all(DW.must_pass([s], [bb]) for s in some)
            ctx.check(ok, "R13.3", "%s|drain-exits-only-on-disconnect" % W.name,
                      "the drain loop leaves only when the channel reports disconnection: every received pair is answered and the loop continues", DW.where(bb))
        # ShuttingDown is constructed only in the worker
        sites = []
        for name, f in F.fns.items():
            for b in sorted(f.live_blocks()):
                for i, s in enumerate(f.blocks[b]["stmts"]):
                    if s["k"] == "assign" and s["rv"]["k"] == "agg" and s["rv"].get("variant") == "ShuttingDown" and s["rv"].get("adt", "").endswith("CommandStatus"):
                        sites += sorted(thread_roots(F, name, F.spawn_closures()))
        ctx.check(sites and set(sites) == {W.name}, "R13.5", "shutting-down-only-in-drain", "CommandStatus::ShuttingDown is produced only by the worker's drain arm", detail=str(sorted(set(sites))))

    # ---- R13.7 (= C12 R12.3/R12.4) an acknowledgement answered by the drain (or just before shutdown) wakes whoever waits on
    # it *now*: poll registers the current waker, completion wakes the registered one.  Otherwise a caller that polled once and
    # then awaits from another task is never woken although its status was recorded
    for o in ctx.own_of("c12"):
        if o["rule"] in ("R12.3", "R12.4") and any(x in o["key"] for x in ("registers-current-waker", "registration-dominates-flag-load", "wake-exists", "some-waker-is-woken", "wake-from-slot")):
            ctx._add(o["status"], "R13.7", o["key"].split("|", 1)[1], o["desc"], o["where"], o["detail"])

    senders_all = set(A.send_fns)
    ch = True
    while ch:
        ch = False
        for n2, g in F.fns.items():
            if n2 not in senders_all and any(tt.get("rpath") in senders_all for b2, tt in g.calls()):
                senders_all.add(n2)
                ch = True
    # ---- R13.4 no guard across a blocking send -------------------------------------------------------
    bad = []
    n = 0
    for nd in F.nodes:
        if not nd.get("local") or "calls" not in nd:
            continue
        f = F.fn(nd["def"])
        if f is None:
            continue
        for bb, k, tgt, c in F.inst_edges(nd["id"]):
            e = site_effects(F, f, bb)
            # only the command queue matters for C13: a send that can wait for the command worker
            reaches_cmd_send = bool(e["local"] & senders_all) or (c.get("callee", "").startswith("crossbeam_channel::Sender::<T>::send") and A.pair_adt and A.pair_adt in " ".join(c.get("gargs", [])))
            if "chan_send" in e["block"] and reaches_cmd_send:
                n += 1
                if f.held_before_term(bb):
                    bad.append((f.name, f.where(bb), sorted(f.held_before_term(bb))))
    ctx.check(not bad and n >= 2, "R13.4", "no-guard-across-blocking-send",
              "no lock guard is live at any call that may block on sending to the command queue (%d such call sites)" % n, detail=str(bad[:3]))

    # ---- R13.6 no lock-order cycle can trap shutdown() or the worker that must answer every command ------------
    import c18
    edges, _bug, _n, _i = c18.lock_graph(ctx, record_ok=False)
    graph = {}
    for (h, a2), sites in edges.items():
        graph.setdefault(h, set()).add(a2)
    involved = set()
    cyc = c18.find_cycle(graph)
    selfs = [(h, sites) for (h, a2), sites in edges.items() if h == a2]
    relevant = set()
    starts = []
    for name, f in F.fns.items():
        if f.calls_to("std::sync::atomic::Atomic::<bool>::compare_exchange", "std::sync::atomic::Atomic::<bool>::swap") and f.rec.get("reachable"):
            starts += F.insts_of(name)
    if W is not None:
        starts += F.insts_of(W.name)
    for nid in starts:
        relevant |= {F.def_of(n) for n in F.inst_reach([nid])}
    bad_cycle = None
    if cyc:
        cyc_edges = [(h, a2) for (h, a2) in edges if h in cyc and a2 in cyc and h != a2]
        if any(s[0].name in relevant for e in cyc_edges for s in edges[e]):
            bad_cycle = cyc
    bad_self = [(h, s[0].where(s[1])) for h, sites in selfs for s in sites if s[0].name in relevant]
    ctx.check(bad_cycle is None and not bad_self, "R13.6", "no-lock-cycle-through-shutdown-or-worker",
              "no lock-order cycle (or same-class nested acquisition) involves code reachable from shutdown() or from the command worker: otherwise shutdown can hang or pending commands are never answered",
              detail=("cycle %s" % " -> ".join(bad_cycle) if bad_cycle else "") + (" self %s" % bad_self[:2] if bad_self else ""))

    # ---- R13.5 failed send -> Err --------------------------------------------------------------------
    for f, bb, t, m in A.send_sites:
        sres = f.origin_call(bb, t)
        bad = []
        for p in enum_paths(f):
            atoms = path_atoms(f, p)
            v = [a for a in atoms if a[0] == "enum" and strip_site(a[1]) == strip_site(sres)]
            r = path_return(f, p, atoms)
            if v and v[0][2] != ("Ok",) and not (r[0] == "agg" and r[2] == "Err"):
                bad.append(p)
            if not v:
                bad.append(p)
        ctx.check(not bad, "R13.5", "%s|failed-send-is-err" % f.name, "a send that fails (worker gone) is reported to the caller as Err, never as a pending acknowledgement", f.where(bb))


def cache_reaching_iter(F, self_ty, cname):
    """iterator types that hold a reference to the cache (directly or through another such iterator)"""
    base = self_ty.split("<")[0]
    adt = F.adts.get(base)
    if not adt:
        return False
    for fl in adt["variants"][0]["fields"]:
        if cname + "<" in fl["ty"]:
            return True
        inner = fl["ty"].split("<")[0]
        if inner != base and inner in F.adts and cache_reaching_iter(F, fl["ty"], cname):
            return True
    return False
