"""Interprocedural, path-sensitive symbolic paths (A6).

`ipaths(F, f, stop=...)` enumerates the paths of f's CFG (back edges cut as in core.enum_paths) and *executes* each
one forward over the expression language of core.py:

  * a local read on a path is the value last assigned to it ON THAT PATH (no phi): `let status = if a { X } else { g() }`
    followed by `match status` yields one path with status = X and one with status = g(), and a branch whose
    scrutinee is a known constructor on the path is decided (the other edge is infeasible and the path is dropped);
  * calls to local helper functions are inlined (their own paths are enumerated symbolically over their parameters
    once, then substituted), except the functions in `stop`: those stay opaque call events - a rule passes the
    vocabulary it reasons about (the statistics bumps, the liveness predicate, the store operations ...) as `stop`,
    so the same rule sees the same events whether the code calls them directly, through an extracted helper, or
    from a closure;
  * closures handed to the usual Option / Result / bool combinators (map, and_then, filter, map_or, map_or_else,
    unwrap_or, unwrap_or_else, or_else, is_some_and, ok_or, then, then_some, ...) are executed as the branches they
    stand for; a closure called directly (`(hook)(x)`) is inlined when its aggregate is known on the path;
  * `x.is_some()` / `is_none()` / `is_ok()` / `is_err()` tests and `==`-tests against a fieldless variant become the
    same `enum` atoms a `match` produces.

Each result is an SPath: atoms (branch facts), events (opaque calls in execution order, with resolved argument
expressions), stores (writes through pointers), ret (returned expression).  Everything is still a static
over-approximation of the code's shape: no concrete value is ever computed.
"""
from core import (TRANSPARENT_CALLS, strip_site, subexprs, mentions, project, downcast, norm_binop, enum_paths,
                  is_log_block_term, eq_variant, try_branch_subject, subst_params, unclone, fmt, OVERFLOW_OPS)

# trait methods whose (derived) impls are value-level vocabulary of the expression language, never control flow to inline
NEVER_INLINE = ("std::cmp::PartialEq::", "std::cmp::PartialOrd::", "std::cmp::Ord::", "std::clone::Clone::", "std::hash::Hash::",
                "std::fmt::", "std::default::Default::", "std::ops::Drop::")

NONE = ("agg", "std::option::Option", "None", ())


def SOME(x):
    return ("agg", "std::option::Option", "Some", (("0", x),))


def OK(x):
    return ("agg", "std::result::Result", "Ok", (("0", x),))


def ERR(x):
    return ("agg", "std::result::Result", "Err", (("0", x),))


def payload(x, variant):
    return project(downcast(x, variant), "0")


class Ev:
    __slots__ = ("fn", "bb", "t", "callee", "generic", "args", "res", "depth", "log", "seq")

    def __init__(self, fn, bb, t, callee, generic, args, res, depth, log=False, seq=0):
        self.fn, self.bb, self.t, self.callee, self.generic, self.args, self.res, self.depth, self.log, self.seq = fn, bb, t, callee, generic, args, res, depth, log, seq

    def where(self):
        return self.fn.where(self.bb)

    def __repr__(self):
        return "Ev(%s@%s:%s)" % (self.callee, self.fn.name.split("::")[-1], self.bb)


class SPath:
    __slots__ = ("fn", "blocks", "atoms", "events", "stores", "ret", "trace", "env")

    def __init__(self, fn, blocks, atoms, events, stores, ret, trace, env=None):
        self.fn, self.blocks, self.atoms, self.events, self.stores, self.ret, self.trace = fn, blocks, atoms, events, stores, ret, trace
        self.env = env or {}      # locals of fn assigned on this path (root function only) -> final value

    # ---- queries ------------------------------------------------------------------------------------
    def calls(self, names=None, pred=None):
        out = []
        for e in self.events:
            if e.log:
                continue
            if names is not None and e.callee not in names and e.generic not in names:
                continue
            if pred is not None and not pred(e):
                continue
            out.append(e)
        return out

    def calls_matching(self, *subs):
        return [e for e in self.events if not e.log and any(s in e.callee or s in e.generic for s in subs)]

    def variant_of(self, expr):
        """variant names the path has established for expr (tuple) or None; a known constructor decides itself"""
        x = strip_site(unclone(expr))
        if x[0] == "agg" and x[2]:
            return (x[2],)
        pos = None
        neg = set()
        for a in self.atoms:
            if a[0] == "enum" and strip_site(unclone(a[1])) == x:
                names = a[2]
                p = {n for n in names if not n.startswith("!")}
                neg |= {n[1:] for n in names if n.startswith("!")}
                if p:
                    pos = p if pos is None else (pos & p)
        if pos:
            return tuple(sorted(pos - neg))
        if neg:
            return tuple(sorted("!" + n for n in neg))
        return None

    def truth_of(self, pred):
        """truth of the first bool atom whose expression satisfies pred, else None"""
        for a in self.atoms:
            if a[0] == "bool" and pred(a[1]):
                return a[2]
        return None

    def payload_of(self, expr, variant="Some"):
        """the payload of expr when the path knows it to be `variant` (a constructor, or established by an atom)"""
        if expr[0] == "agg" and expr[2] == variant and expr[3]:
            return expr[3][0][1]
        if self.variant_of(expr) == (variant,):
            return project(downcast(expr, variant), "0")
        return None

    def ret_variant(self):
        return self.variant_of(self.ret)

    def show(self):
        return "via %s" % (self.trace[:14],)


class _State:
    __slots__ = ("env", "pmem", "dv", "refs", "atoms", "events", "stores", "trace", "n")

    def __init__(self):
        self.env, self.pmem, self.dv, self.refs = {}, {}, {}, {}
        self.atoms, self.events, self.stores, self.trace = [], [], [], []
        self.n = 0

    def fork(self):
        s = _State()
        s.env, s.pmem, s.dv, s.refs = dict(self.env), dict(self.pmem), dict(self.dv), dict(self.refs)
        s.atoms, s.events, s.stores, s.trace = list(self.atoms), list(self.events), list(self.stores), list(self.trace)
        s.n = self.n
        return s

    def tick(self):
        self.n += 1
        return self.n


class Engine:
    def __init__(self, F, stop=None, depth=3, limit=3000, callee_limit=48, inline_closures=True, model_unwrap=False):
        self.F = F
        self.stop = stop or (lambda name: False)
        self.depth = depth
        self.limit = limit
        self.callee_limit = callee_limit
        self.inline_closures = inline_closures
        self.model_unwrap = model_unwrap
        self.cache = {}
        self.truncated = False

    # ---- summaries of callees over their parameters -----------------------------------------------------
    def summary(self, g, depth, stack):
        key = (g.name, depth)
        if key in self.cache:
            return self.cache[key]
        self.cache[key] = None          # recursion guard
        ps = self.run(g, depth, stack + (g.name,))
        if ps is not None and len(ps) > self.callee_limit:
            ps = None
        self.cache[key] = ps
        return ps

    def inlinable(self, name, depth, stack):
        if depth <= 0 or name in stack or name not in self.F.fns or self.stop(name):
            return None
        g = self.F.fns[name]
        if len(g.live_blocks()) > 120:
            return None
        return g

    # ---- evaluation ---------------------------------------------------------------------------------------
    def rd_local(self, f, st, l):
        if l in st.env:
            return st.env[l]
        if 1 <= l <= f.argc:
            if f.kind == "Closure" and l == 1:
                return ("env",)
            return ("param", l)
        if any(k[0] == l for k in st.pmem):
            return ("built", l)
        return f.origin_local(l)

    def rd_place(self, f, st, p):
        l, proj = p["l"], p["p"]
        base = None
        used = 0
        # longest prefix written field-wise on this path
        if l not in st.env:
            for k in range(len(proj), 0, -1):
                key = (l, _pkey(proj[:k]))
                if key in st.pmem:
                    base, used = st.pmem[key], k
                    break
        if base is None:
            base = self.rd_local(f, st, l)
        for e in proj[used:]:
            if e == "deref":
                continue
            if isinstance(e, dict) and "f" in e:
                base = project(base, e["f"])
            elif isinstance(e, dict) and "dc" in e:
                base = downcast(base, e["dc"])
            elif isinstance(e, dict) and "index" in e:
                base = ("index", base, self.rd_local(f, st, e["index"]))
            elif isinstance(e, dict) and "cindex" in e:
                base = ("index", base, ("const", e["cindex"], "usize"))
            else:
                base = ("unknown", "proj")
        return base

    def rd_operand(self, f, st, o):
        k = o["k"]
        if k in ("copy", "move"):
            return self.rd_place(f, st, o["place"])
        return f.origin_operand(o)

    def rd_rvalue(self, f, st, rv):
        k = rv["k"]
        if k == "use":
            return self.rd_operand(f, st, rv["op"])
        if k in ("ref", "rawptr"):
            return self.rd_place(f, st, rv["place"])
        if k == "cast":
            inner = self.rd_operand(f, st, rv["op"])
            ck = rv["ck"]
            if "Unsize" in ck or "PointerCoercion" in ck or "PtrToPtr" in ck or "Transmute" in ck:
                return inner
            return ("cast", inner, rv["ty"])
        if k == "binop":
            return norm_binop(rv["op"], self.rd_operand(f, st, rv["a"]), self.rd_operand(f, st, rv["b"]))
        if k == "unop":
            a = self.rd_operand(f, st, rv["a"])
            if rv["op"] == "Not" and a[0] == "unop" and a[1] == "Not":
                return a[2]
            if rv["op"] == "Not" and a[0] == "const" and len(a) > 2 and a[2] == "bool":
                return ("const", 0 if a[1] else 1, "bool")
            return ("unop", rv["op"], a)
        if k == "discr":
            return ("discr", self.rd_place(f, st, rv["place"]))
        if k == "agg":
            names = rv.get("names") or []
            fs = []
            for i, o in enumerate(rv["ops"]):
                n = names[i] if i < len(names) else str(i)
                fs.append((n, self.rd_operand(f, st, o)))
            head = rv.get("adt") or rv.get("closure") or rv["agg"]
            return ("agg", head, rv.get("variant", ""), tuple(fs))
        if k == "repeat":
            return ("repeat", self.rd_operand(f, st, rv["op"]))
        return ("unknown", rv.get("repr", k)[:40])

    def wr_place(self, f, st, p, val, bb, idx, rv=None):
        l, proj = p["l"], p["p"]
        if not proj:
            st.env[l] = val
            for k in [k for k in st.pmem if k[0] == l]:
                del st.pmem[k]
            if rv is not None and rv["k"] == "discr":
                st.dv[l] = rv.get("variants") or []
            if rv is not None and rv["k"] == "ref" and "deref" not in rv["place"]["p"]:
                st.refs[l] = rv["place"]
            else:
                st.refs.pop(l, None)
            return
        if "deref" in proj:
            tgt = self.rd_place(f, st, p)
            st.stores.append((tgt, val, (f, bb, idx, st.tick())))
            # `*r = v` where r = &mut local on this path: the local itself changes
            if proj[0] == "deref" and l in st.refs and l not in (1,):
                t = st.refs[l]
                self.wr_place(f, st, {"l": t["l"], "p": list(t["p"]) + list(proj[1:])}, val, bb, idx)
            return
        # field-wise construction / update of a local
        cur = st.env.get(l)
        if cur is not None and cur[0] == "agg" and len(proj) == 1 and isinstance(proj[0], dict) and "f" in proj[0]:
            fs = tuple((n, (val if n == proj[0]["f"] else x)) for n, x in cur[3])
            if any(n == proj[0]["f"] for n, x in cur[3]):
                st.env[l] = ("agg", cur[1], cur[2], fs)
                return
        st.pmem[(l, _pkey(proj))] = val

    # ---- one function ---------------------------------------------------------------------------------------
    def run(self, f, depth, stack=(), start=0, ends=None, avoid=(), init=None):
        """list of SPath over f's own parameters (or over the caller's terms when `init` binds the parameters to
        argument expressions), or None when the path budget is exceeded"""
        roots = enum_paths(f, start=start, ends=ends, avoid=avoid, second_iteration=True)
        out = []
        seen_sig = set()
        for blocks in roots:
            repeated = {b_ for b_ in blocks if blocks.count(b_) > 1}
            self._visit = {}
            self._repeated = repeated
            st0 = _State()
            if init:
                for i_, a_ in enumerate(init):
                    st0.env[i_ + 1] = a_
            states = [st0]
            for i, b in enumerate(blocks):
                nxt = blocks[i + 1] if i + 1 < len(blocks) else None
                for st in states:
                    st.trace.append(b) if depth == self.depth else None
                for idx, s in enumerate(f.blocks[b]["stmts"]):
                    if s["k"] != "assign":
                        continue
                    for st in states:
                        self.wr_place(f, st, s["place"], self.rd_rvalue(f, st, s["rv"]), b, idx, s["rv"])
                t = f.term(b)
                k = t["k"]
                if b in repeated:
                    self._visit[b] = self._visit.get(b, 0) + 1
                    self._cur_tag = (b, self._visit[b])
                else:
                    self._cur_tag = None
                if k == "call":
                    new = []
                    for st in states:
                        new += self.do_call(f, st, b, t, depth, stack)
                        if len(new) > self.limit:
                            self.truncated = True
                            return None
                    states = new
                elif k == "switch" and nxt is not None:
                    states = [st for st in states if self.do_switch(f, st, b, t, nxt)]
                if not states:
                    break
            for st in states:
                ret = st.env.get(0)
                if ret is None:
                    ret = ("unit",) if not any(k[0] == 0 for k in st.pmem) else ("built", 0)
                sig = (repr([(a[0], strip_site(a[1]), a[2]) for a in st.atoms]), repr([(e.callee, e.fn.name, e.bb, strip_site(e.args)) for e in st.events if not e.log]),
                       repr(strip_site(ret)), repr([(strip_site(x), strip_site(y)) for x, y, w in st.stores]))
                if sig in seen_sig:
                    continue
                seen_sig.add(sig)
                if _consistent(st.atoms):
                    out.append(SPath(f, blocks, st.atoms, st.events, st.stores, ret, st.trace if depth == self.depth else list(blocks), dict(st.env)))
            if len(out) > self.limit:
                self.truncated = True
                return None
        return out

    # ---- branches ----------------------------------------------------------------------------------------------
    def do_switch(self, f, st, b, t, nxt):
        if is_log_block_term(t):
            return True
        d = t["discr"]
        e = self.rd_operand(f, st, d)
        targets = list(t["targets"])
        other = t["otherwise"]
        if t.get("dty") == "bool":
            tg = dict(targets)
            if 0 in tg and len(tg) == 1:
                tt, ft = other, tg[0]
            elif 1 in tg and len(tg) == 1:
                tt, ft = tg[1], other
            else:
                return True
            while e[0] == "unop" and e[1] == "Not":
                e, tt, ft = e[2], ft, tt
            if tt == ft:
                return True
            truth = nxt == tt
            return self.add_bool(st, e, truth, (f.name, b))
        if e[0] == "discr":
            scrut = e[1]
            vmap = {}
            if d["k"] in ("copy", "move") and not d["place"]["p"]:
                vmap = {v: n for v, n in st.dv.get(d["place"]["l"], [])}
                if not vmap:
                    ds = f.defs().get(d["place"]["l"], [])
                    if len(ds) == 1 and ds[0][0] == "stmt" and ds[0][3]["k"] == "discr":
                        vmap = {v: n for v, n in ds[0][3]["variants"]}
            if not vmap:
                return True
            named = {vmap.get(v, str(v)): tb for v, tb in targets}
            rest = [n for v, n in vmap.items() if n not in named]
            tb = try_branch_subject(scrut)
            if tb:
                scrut, mp = tb
                named = {mp.get(n, n): x for n, x in named.items()}
                rest = [mp.get(n, n) for n in rest]
            names = sorted({n for n, x in named.items() if x == nxt} | ({n for n in rest} if other == nxt else set()))
            if not names:
                # every variant of the type has an arm of its own elsewhere: the `otherwise` edge of this switch (the `_`
                # arm of a tuple match reached "through" an exhausted discriminant) is never taken
                return False
            return self.add_enum(st, scrut, tuple(names), (f.name, b))
        # integer switch on a known constant
        if e[0] == "const" and isinstance(e[1], int):
            tg = dict(targets)
            want = tg.get(e[1], other)
            return want == nxt
        # integer match: the edge taken says which literal the value equals (or that it equals none of them)
        dty = t.get("dty", "")
        if dty in ("u8", "u16", "u32", "u64", "u128", "usize", "i8", "i16", "i32", "i64", "i128", "isize", "char") and e[0] not in ("discr",):
            hit = [v for v, tb in targets if tb == nxt]
            if hit and nxt != other and len(hit) == 1:
                return self.add_bool(st, norm_binop("Eq", e, ("const", hit[0], dty)), True, (f.name, b))
            if nxt == other:
                for v, tb in targets:
                    if not self.add_bool(st, norm_binop("Eq", e, ("const", v, dty)), False, (f.name, b)):
                        return False
        return True

    def add_bool(self, st, e, truth, where):
        while e[0] == "unop" and e[1] == "Not":
            e, truth = e[2], not truth                               # one spelling of a negated test
        if e[0] == "const" and isinstance(e[1], (bool, int)):
            return bool(e[1]) == truth
        if e[0] == "binop" and e[1] == "Ne":
            e, truth = ("binop", "Eq", e[2], e[3]), not truth       # one spelling of (in)equality
        if e[0] == "binop" and e[1] in ("Lt", "Le", "Eq", "Ne") and e[2][0] == "const" and e[3][0] == "const" \
                and isinstance(e[2][1], int) and isinstance(e[3][1], int):
            a, b = e[2][1], e[3][1]
            v = {"Lt": a < b, "Le": a <= b, "Eq": a == b, "Ne": a != b}[e[1]]
            return v == truth
        if e[0] == "binop" and e[1] in ("Lt", "Le", "Eq", "Ne"):
            a, b = _uncast_const(e[2]), _uncast_const(e[3])
            if a is not None and b is not None:
                v = {"Lt": a < b, "Le": a <= b, "Eq": a == b, "Ne": a != b}[e[1]]
                return v == truth
        # an unsigned value is never below zero: `0 <= len` is always true, `len < 0` never (dead edges of a useless comparison)
        if e[0] == "binop" and e[1] in ("Le", "Lt") and ((e[1] == "Le" and _is_zero(e[2]) and _is_unsigned(e[3])) or (e[1] == "Lt" and _is_zero(e[3]) and _is_unsigned(e[2]))):
            return truth == (e[1] == "Le")
        ev = eq_variant(e)
        if ev is not None:
            scrut, vname, positive = ev
            return self.add_enum(st, scrut, (vname,) if truth == positive else ("!" + vname,), where)
        if e[0] == "call" and len(e[2]) >= 1:
            m = e[1]
            for suffix, ty, vt, vf in (("Option::<T>::is_some", None, "Some", "None"), ("Option::<T>::is_none", None, "None", "Some"),
                                      ("Result::<T, E>::is_ok", None, "Ok", "Err"), ("Result::<T, E>::is_err", None, "Err", "Ok")):
                if m.endswith(suffix) and len(e[2]) == 1:
                    return self.add_enum(st, e[2][0], (vt if truth else vf,), where)
        st.atoms.append(("bool", e, truth, where, st.tick()))
        return True

    def add_enum(self, st, scrut, names, where):
        x = scrut
        if x[0] == "agg" and x[2]:
            pos = [n for n in names if not n.startswith("!")]
            neg = [n[1:] for n in names if n.startswith("!")]
            if pos:
                return x[2] in pos
            return x[2] not in neg
        st.atoms.append(("enum", scrut, tuple(names), where, st.tick()))
        return True

    # ---- calls ----------------------------------------------------------------------------------------------------
    def do_call(self, f, st, b, t, depth, stack):
        """returns the successor states (the call may fork into the callee's paths)"""
        args = tuple(self.rd_operand(f, st, a) for a in t["args"])
        callee = t.get("rpath") or t["callee"]
        generic = t["callee"]
        log = is_log_block_term(t)
        dest = t["dest"]

        def finish(s2, val):
            self.wr_place(f, s2, dest, val, b, None)
            return s2

        if log:
            return [finish(st, f.call_expr(b, t, args, 0, False))]
        outs = None
        if self.inline_closures:
            outs = self.combinator(f, st, b, t, generic, callee, args, depth, stack)
        if outs is None and t["res"] == "item" and not generic.startswith(NEVER_INLINE):
            g = self.inlinable(callee, depth, stack)
            if g is not None and not (g.is_simple_accessor() and g.kind != "Closure"):
                carries_fn = any(isinstance(a, tuple) and a and ((a[0] == "agg" and a[1] in self.F.fns and self.F.fns[a[1]].kind == "Closure") or a[0] == "fnconst") for a in args)
                if carries_fn:
                    # a closure / fn item handed to a local function (`with_lock(|x| ..)`): run the callee with its
                    # parameters bound to the actual arguments, so the call of the closure inside it is executed too
                    ps = self.run(g, depth - 1, stack + (g.name,), init=list(args))
                    if ps is not None and 0 < len(ps) <= self.callee_limit:
                        outs = [(list(sp.atoms), list(sp.events), list(sp.stores), sp.ret) for sp in ps]
                if outs is None:
                    summ = self.summary(g, depth - 1, stack)
                    if summ:
                        outs = [(sp, list(args)) for sp in summ]
        if outs is None:
            val = f.call_expr(b, t, args, 0, False)
            tag = getattr(self, "_cur_tag", None)
            if tag is not None and tag[0] == b and val[0] == "call" and len(val) == 4 and tag[1] > 1:
                # the same call site executed again in a loop: a different value each time
                val = val[:3] + ((f.name, b, tag[1]),)
            if not (val[0] != "call" or generic in TRANSPARENT_CALLS):
                st.events.append(Ev(f, b, t, callee if t["res"] not in ("unresolved", "virtual") else generic, generic, args, val, depth, False, st.tick()))
            return [finish(st, val)]
        res = []
        for item in outs:
            s2 = st.fork()
            if isinstance(item[0], SPath):
                sp, a = item
                atoms = [(at[0], _subst(at[1], a), at[2], at[3], at[4]) for at in sp.atoms]
                events = [Ev(ev.fn, ev.bb, ev.t, ev.callee, ev.generic, tuple(_subst(x, a) for x in ev.args), _subst(ev.res, a), ev.depth, ev.log, ev.seq) for ev in sp.events]
                stores = [(_subst(tgt, a), _subst(val, a), w) for tgt, val, w in sp.stores]
                val = _subst(sp.ret, a)
            else:
                # synthetic outcome from a combinator model: (atoms, events, stores, value)
                atoms, events, stores, val = item
            if not self.merge(s2, atoms, events, stores):
                continue
            res.append(finish(s2, val))
        return res

    def merge(self, st, atoms, events, stores=()):
        """append a callee's atoms and events in their own execution order; False when an atom contradicts a
        constructor known on the caller's path"""
        items = [(at[4] if len(at) > 4 else 0, 0, at) for at in atoms] + [(ev.seq, 1, ev) for ev in events] + \
                [((sx[2][3] if len(sx[2]) > 3 else 0), 2, sx) for sx in stores]
        items.sort(key=lambda x: (x[0], x[1]))
        for _, kind, it in items:
            if kind == 2:
                w = it[2]
                st.stores.append((it[0], it[1], (w[0], w[1], w[2], st.tick())))
                continue
            if kind == 0:
                ok = self.add_bool(st, it[1], it[2], it[3]) if it[0] == "bool" else self.add_enum(st, it[1], it[2], it[3])
                if not ok:
                    return False
            else:
                st.events.append(Ev(it.fn, it.bb, it.t, it.callee, it.generic, it.args, it.res, it.depth, it.log, st.tick()))
        return True

    # ---- closures ------------------------------------------------------------------------------------------------------
    def closure_paths(self, clo, cargs, depth, stack):
        """paths of a closure aggregate applied to cargs (list of argument expressions, untupled), as synthetic outcomes;
        None when the closure is unknown or not inlinable"""
        clo = _peel_ref(clo)
        if clo[0] == "fnconst":
            name = clo[1]
            g = self.inlinable(name, depth, stack)
            if g is None:
                return None
            summ = self.summary(g, depth - 1, stack)
            if not summ:
                return None
            a = list(cargs)
        elif clo[0] == "agg" and clo[1] in self.F.fns and self.F.fns[clo[1]].kind == "Closure":
            g = self.inlinable(clo[1], depth, stack)
            if g is None:
                return None
            summ = self.summary(g, depth - 1, stack)
            if not summ:
                return None
            a = [clo] + list(cargs)
        else:
            return None
        outs = []
        for sp in summ:
            atoms = [(at[0], _subst(at[1], a), at[2], at[3], at[4]) for at in sp.atoms]
            events = [Ev(ev.fn, ev.bb, ev.t, ev.callee, ev.generic, tuple(_subst(x, a) for x in ev.args), _subst(ev.res, a), ev.depth, ev.log, ev.seq) for ev in sp.events]
            stores = [(_subst(tg, a), _subst(v, a), w) for tg, v, w in sp.stores]
            outs.append((atoms, events, stores, _subst(sp.ret, a)))
        return outs

    def combinator(self, f, st, b, t, generic, callee, args, depth, stack):
        w = (f.name, b)
        m = generic

        def enum_atom(x, v):
            return ("enum", x, (v,), w)

        def with_closure(clo, cargs, pre_atoms, wrap):
            cp = self.closure_paths(clo, cargs, depth, stack)
            if cp is None:
                return None
            return [(pre_atoms + atoms, events, stores, wrap(val)) for atoms, events, stores, val in cp]

        # `x?` : Try::branch forks into Continue(payload) / Break(residual); from_residual rebuilds the early return
        if m == "std::ops::Try::branch" and len(args) == 1:
            x = args[0]
            if "std::option::Option" in callee:
                return [([enum_atom(x, "Some")], [], [], ("agg", "std::ops::ControlFlow", "Continue", (("0", payload(x, "Some")),))),
                        ([enum_atom(x, "None")], [], [], ("agg", "std::ops::ControlFlow", "Break", (("0", NONE),)))]
            if "std::result::Result" in callee:
                return [([enum_atom(x, "Ok")], [], [], ("agg", "std::ops::ControlFlow", "Continue", (("0", payload(x, "Ok")),))),
                        ([enum_atom(x, "Err")], [], [], ("agg", "std::ops::ControlFlow", "Break", (("0", ERR(payload(x, "Err"))),)))]
            return None
        if m == "std::ops::FromResidual::from_residual" and len(args) == 1:
            if "std::option::Option" in callee:
                return [([], [], [], NONE)]
            if "std::result::Result" in callee:
                r = args[0]
                return [([], [], [], r if (r[0] == "agg" and r[2] == "Err") else ERR(payload(r, "Err")))]
            return None
        # direct call of a closure value
        if m in ("std::ops::Fn::call", "std::ops::FnMut::call_mut", "std::ops::FnOnce::call_once") and len(args) == 2:
            tup = args[1]
            if tup[0] == "agg":
                cargs = [x for n, x in tup[3]]
                return with_closure(args[0], cargs, [], lambda v: v)
            return None
        if m == "std::option::Option::<std::option::Option<T>>::flatten" and len(args) == 1:
            x = args[0]
            inner = payload(x, "Some")
            return [([enum_atom(x, "Some"), enum_atom(inner, "Some")], [], [], inner),
                    ([enum_atom(x, "Some"), enum_atom(inner, "None")], [], [], NONE),
                    ([enum_atom(x, "None")], [], [], NONE)]
        opt = m.startswith("std::option::Option::<T>::")
        res = m.startswith("std::result::Result::<T, E>::")
        if opt:
            meth = m.split("::")[-1]
            x = args[0] if args else None
            some, none = [enum_atom(x, "Some")], [enum_atom(x, "None")]
            pl = payload(x, "Some") if x is not None else None
            if meth in ("unwrap", "expect", "unwrap_unchecked") and self.model_unwrap:
                # on the paths that continue, the value was Some
                return [(some, [], [], pl)]
            if meth == "map" and len(args) == 2:
                r = with_closure(args[1], [pl], some, SOME)
                return None if r is None else r + [(none, [], [], NONE)]
            if meth == "and_then" and len(args) == 2:
                r = with_closure(args[1], [pl], some, lambda v: v)
                return None if r is None else r + [(none, [], [], NONE)]
            if meth == "filter" and len(args) == 2:
                cp = self.closure_paths(args[1], [pl], depth, stack)
                if cp is None:
                    return None
                outs = [(none, [], [], NONE)]
                for atoms, events, stores, val in cp:
                    outs.append((some + atoms + [("bool", val, True, w, 10 ** 9)], events, stores, x))
                    outs.append((some + atoms + [("bool", val, False, w, 10 ** 9)], events, stores, NONE))
                return outs
            if meth == "is_some_and" and len(args) == 2:
                r = with_closure(args[1], [pl], some, lambda v: v)
                return None if r is None else r + [(none, [], [], ("const", False, "bool"))]
            if meth == "map_or" and len(args) == 3:
                r = with_closure(args[2], [pl], some, lambda v: v)
                return None if r is None else r + [(none, [], [], args[1])]
            if meth == "map_or_else" and len(args) == 3:
                r = with_closure(args[2], [pl], some, lambda v: v)
                d = with_closure(args[1], [], none, lambda v: v)
                return None if r is None or d is None else r + d
            if meth == "unwrap_or_else" and len(args) == 2:
                d = with_closure(args[1], [], none, lambda v: v)
                return None if d is None else d + [(some, [], [], pl)]
            if meth == "unwrap_or" and len(args) == 2:
                return [(some, [], [], pl), (none, [], [], args[1])]
            if meth == "or_else" and len(args) == 2:
                d = with_closure(args[1], [], none, lambda v: v)
                return None if d is None else d + [(some, [], [], x)]
            if meth == "or" and len(args) == 2:
                return [(some, [], [], x), (none, [], [], args[1])]
            if meth == "and" and len(args) == 2:
                return [(some, [], [], args[1]), (none, [], [], NONE)]
            if meth == "ok_or" and len(args) == 2:
                return [(some, [], [], OK(pl)), (none, [], [], ERR(args[1]))]
            if meth == "ok_or_else" and len(args) == 2:
                d = with_closure(args[1], [], none, ERR)
                return None if d is None else d + [(some, [], [], OK(pl))]
            if meth == "inspect" and len(args) == 2:
                r = with_closure(args[1], [pl], some, lambda v: x)
                return None if r is None else r + [(none, [], [], NONE)]
            return None
        if res:
            meth = m.split("::")[-1]
            x = args[0] if args else None
            ok, err = [enum_atom(x, "Ok")], [enum_atom(x, "Err")]
            po, pe = payload(x, "Ok"), payload(x, "Err")
            if meth in ("unwrap", "expect") and self.model_unwrap:
                return [(ok, [], [], po)]
            if meth == "map" and len(args) == 2:
                r = with_closure(args[1], [po], ok, OK)
                return None if r is None else r + [(err, [], [], ERR(pe))]
            if meth == "map_err" and len(args) == 2:
                r = with_closure(args[1], [pe], err, ERR)
                return None if r is None else r + [(ok, [], [], OK(po))]
            if meth == "and_then" and len(args) == 2:
                r = with_closure(args[1], [po], ok, lambda v: v)
                return None if r is None else r + [(err, [], [], ERR(pe))]
            if meth == "unwrap_or_else" and len(args) == 2:
                r = with_closure(args[1], [pe], err, lambda v: v)
                return None if r is None else r + [(ok, [], [], po)]
            if meth == "unwrap_or" and len(args) == 2:
                return [(ok, [], [], po), (err, [], [], args[1])]
            if meth == "ok" and len(args) == 1:
                return [(ok, [], [], SOME(po)), (err, [], [], NONE)]
            if meth == "err" and len(args) == 1:
                return [(err, [], [], SOME(pe)), (ok, [], [], NONE)]
            if meth == "is_ok_and" and len(args) == 2:
                r = with_closure(args[1], [po], ok, lambda v: v)
                return None if r is None else r + [(err, [], [], ("const", False, "bool"))]
            return None
        if m in ("core::bool::<impl bool>::then", "std::primitive::bool::then") or m.endswith("bool>::then"):
            if len(args) == 2:
                r = with_closure(args[1], [], [("bool", args[0], True, w)], SOME)
                return None if r is None else r + [([("bool", args[0], False, w)], [], [], NONE)]
        # `opt.into_iter().for_each(f)` / `opt.iter().for_each(f)`: f runs once on the payload iff the option is Some
        if m in ("std::iter::Iterator::for_each", "std::iter::Iterator::map") and len(args) == 2 and args[0][0] == "call" and len(args[0][2]) == 1 and \
                (args[0][1].startswith("<std::option::Option<T> as std::iter::IntoIterator>::into_iter") or
                 args[0][1] in ("std::option::Option::<T>::iter", "std::option::Option::<T>::iter_mut")) and m.endswith("for_each"):
            x = args[0][2][0]
            r = with_closure(args[1], [payload(x, "Some")], [enum_atom(x, "Some")], lambda v: ("unit",))
            return None if r is None else r + [([enum_atom(x, "None")], [], [], ("unit",))]
        if m.endswith("bool>::then_some") and len(args) == 2:
            return [([("bool", args[0], True, w)], [], [], SOME(args[1])), ([("bool", args[0], False, w)], [], [], NONE)]
        return None


def _pkey(proj):
    out = []
    for e in proj:
        if e == "deref":
            out.append("*")
        elif isinstance(e, dict):
            out.append(tuple(sorted((k, v) for k, v in e.items() if k in ("f", "dc", "index", "cindex"))))
        else:
            out.append(str(e))
    return tuple(out)


def _is_zero(e):
    return isinstance(e, tuple) and e and e[0] == "const" and e[1] == 0 and e[1] is not False


def _is_unsigned(e):
    UNS = ("u8", "u16", "u32", "u64", "u128", "usize")
    if not isinstance(e, tuple) or not e:
        return False
    if e[0] == "cast":
        return e[2] in UNS
    if e[0] == "const":
        return len(e) > 2 and e[2] in UNS
    if e[0] == "call":
        return e[1].endswith(("::len", "::count", "::capacity"))
    return False


def _uncast_const(e):
    while isinstance(e, tuple) and e and e[0] == "cast":
        e = e[1]
    if isinstance(e, tuple) and e and e[0] == "const" and isinstance(e[1], int) and not isinstance(e[1], bool):
        return e[1]
    return None


def _peel_ref(e):
    return e


def _subst(e, args):
    """callee expression -> caller terms: parameters by position, the closure environment by the closure aggregate"""
    if not isinstance(e, tuple) or not e:
        return e
    if e[0] == "param":
        i = e[1] - 1
        return args[i] if 0 <= i < len(args) else ("unknown", "param")
    if e == ("env",):
        return args[0] if args else e
    if e[0] == "field":
        # precise captures: the closure reads env.*self.matrix while the aggregate names the capture "*self.matrix"
        names = []
        cur = e
        while isinstance(cur, tuple) and cur and cur[0] == "field":
            names.append(cur[2])
            cur = cur[1]
        if cur == ("env",) and args and isinstance(args[0], tuple) and args[0] and args[0][0] == "agg":
            names.reverse()
            caps = dict(args[0][3])
            for k in range(len(names), 0, -1):
                key = ".".join(names[:k])
                if key in caps:
                    out = caps[key]
                    for n in names[k:]:
                        out = project(out, n)
                    return out
        return project(_subst(e[1], args), e[2])
    if e[0] == "variant":
        return downcast(_subst(e[1], args), e[2])
    if e[0] == "binop" and len(e) == 4:
        return norm_binop(e[1], _subst(e[2], args), _subst(e[3], args))
    return tuple(_subst(x, args) if isinstance(x, tuple) else x for x in e)


def _iter_key(e):
    """strip_site, except that a call site tagged with a loop iteration stays distinguishable"""
    if not isinstance(e, tuple):
        return e
    if e and e[0] == "call":
        site = e[3] if len(e) > 3 else None
        base = ("call", e[1], tuple(_iter_key(a) for a in e[2]))
        return base + ((site[2],) if isinstance(site, tuple) and len(site) == 3 else ())
    return tuple(_iter_key(x) for x in e)


def _consistent(atoms):
    """no two atoms about the same expression contradict each other"""
    seen_enum, seen_bool = {}, {}
    for a in atoms:
        key = repr(_iter_key(unclone(a[1])))
        if a[0] == "enum":
            pos = {n for n in a[2] if not n.startswith("!")}
            neg = {n[1:] for n in a[2] if n.startswith("!")}
            if key in seen_enum:
                ppos, pneg = seen_enum[key]
                if pos and ppos and not (pos & ppos):
                    return False
                if pos and pos <= pneg:
                    return False
                if ppos and ppos <= neg:
                    return False
                pos = (pos & ppos) if (pos and ppos) else (pos or ppos)
                neg = neg | pneg
            seen_enum[key] = (pos, neg)
        else:
            if a[1][0] in ("phi", "var"):
                continue
            if key in seen_bool and seen_bool[key] != a[2]:
                return False
            seen_bool[key] = a[2]
    return True


def ipaths(F, f, stop=None, depth=3, start=0, ends=None, avoid=(), limit=3000, engine=None, model_unwrap=False):
    """interprocedural symbolic paths of f; falls back to depth 0 (no inlining) when the budget is exceeded"""
    stop_fn = stop if callable(stop) else ((lambda n, s=frozenset(stop or ()): n in s))
    d = depth
    while d >= 0:
        eng = engine or Engine(F, stop_fn, d, limit, model_unwrap=model_unwrap)
        eng.depth = d
        ps = eng.run(f, d, (f.name,), start=start, ends=ends, avoid=avoid)
        if ps is not None:
            return ps
        engine = None
        d -= 1
    return []


def focus(F, targets, also=None):
    """stop predicate that keeps symbolic execution on what a rule is about: a callee is opaque when it is one of
    `targets`, when `also(name)` says so, or when no target is reachable from it through the local call graph (closures
    it creates included).  A function that invokes one of its own parameters (a closure-taking helper) is never pruned:
    what it reaches depends on the closure it is given."""
    targets = frozenset(targets)
    cg = F.__dict__.get("_focus_cg")
    if cg is None:
        rev, hof = {}, set()
        for n, g in F.fns.items():
            for b, t in g.calls():
                c = t.get("rpath")
                if c in F.fns and t["res"] == "item":
                    rev.setdefault(c, set()).add(n)
                if t["res"] in ("unresolved", "virtual") or (t.get("callee") or "").startswith(("std::ops::Fn", "<std::boxed::Box<F, A> as std::ops::Fn")):
                    hof.add(n)
            if g.kind == "Closure":
                par = n[: n.rfind("::{closure#")]
                rev.setdefault(n, set()).add(par)
        cg = F.__dict__["_focus_cg"] = (rev, hof)
    rev, hof = cg
    relevant = set()
    work = list(targets)
    while work:
        n = work.pop()
        for c in rev.get(n, ()):
            if c not in relevant:
                relevant.add(c)
                work.append(c)
    return lambda n: n in targets or bool(also and also(n)) or (n not in relevant and n not in hof)


def noop_store(p, tgt, val):
    """a write that leaves the target as it was on this path: `x.f = x.f` (`.or(self.f)` spelled as an unconditional
    assignment), or `x.f = None` where the path has just seen `x.f` to be None"""
    if strip_site(unclone(val)) == strip_site(tgt):
        return True
    if val[0] == "agg" and val[2] and not val[3]:
        return p.variant_of(tgt) == (val[2],)
    return False


def bool_outcomes(p):
    """a path returning a bool as (atoms, result) pairs: a symbolic result is split into its two outcomes"""
    r = p.ret
    neg = False
    while isinstance(r, tuple) and r and r[0] == "unop" and r[1] == "Not":
        r, neg = r[2], not neg
    if r[0] == "const" and isinstance(r[1], (bool, int)):
        return [(list(p.atoms), bool(r[1]) != neg)]
    # `x.is_some()` & co as the returned value: decided by a known constructor, else split into the two variants
    if r[0] == "call" and len(r[2]) == 1:
        for suffix, vt, vf in (("Option::<T>::is_some", "Some", "None"), ("Option::<T>::is_none", "None", "Some"),
                               ("Result::<T, E>::is_ok", "Ok", "Err"), ("Result::<T, E>::is_err", "Err", "Ok")):
            if r[1].endswith(suffix):
                x = r[2][0]
                known = (x[2],) if (x[0] == "agg" and x[2]) else p.variant_of(x)
                if known in ((vt,), (vf,)):
                    return [(list(p.atoms), (known == (vt,)) != neg)]
                return [(list(p.atoms) + [("enum", x, (vt,), None, 10 ** 9)], not neg), (list(p.atoms) + [("enum", x, (vf,), None, 10 ** 9)], neg)]
    for a in p.atoms:
        if a[0] == "bool" and strip_site(unclone(a[1])) == strip_site(unclone(r)):
            return [(list(p.atoms), a[2] != neg)]          # the path has already decided this very value
    return [(list(p.atoms) + [("bool", r, True, None, 10 ** 9)], not neg), (list(p.atoms) + [("bool", r, False, None, 10 ** 9)], neg)]
