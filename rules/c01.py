"""C01 — total weight never exceeds the configured cache weight.  (DESIGN §4 C01)

Inductive invariant 0 <= used <= max from structural facts: every write of the total is classified
(increase / decrease / reset); every increase is preceded on every path from the command handler by a
space atom for the same amount; increases happen on one thread only; the amounts agree with the weight map.
"""
from core import (strip_site, root_calls, dashmap_call, lock_call, fmt, subexprs, is_call_to, field_path, mentions)
from weight import WeightModel, accounting_flow
from core import subst_params, inline_ctor

WITNESSES = ['W5InternalsUnreachable']
LEVEL = "other"
EXPLANATION = ("Necessary-and-sufficient structural conditions for the invariant used <= max, checked on MIR: "
               "R01.1 all writes of the total are +=x / -=x / =0; R01.2 each += is dominated by a check "
               "'max - used >= x' for the same x with no other increase in between (composed through callers and "
               "through the Accepted result of create_space-like functions); R01.3 only the single command worker "
               "thread can reach an increase, so a stale check is still valid (other threads only decrease); "
               "R01.4 amounts added/removed equal the weights recorded per id; R01.5 the space predicate is "
               "(max-used, max-used >= w). Arithmetic overflow of i64 is not decided.")
ASSUMPTIONS = ["parking_lot RwLock gives atomic reads/writes of the total", "weights are positive (asserted at the API, see C17 R17.5)"]


def run(ctx):
    F = ctx.facts
    M = WeightModel(ctx)
    ctx.floor("R01.1", "write sites of the total weight", len(M.sites), 4)
    ctx.floor("R01.5", "space query functions (read the total, return (i64, bool))", len(M.queries), 1)
    kinds = [s["kind"] for s in M.sites]
    for s in M.sites + M.helper_sites:
        f = s["fn"]
        ctx.touch(f)
        if clamped_to_limit(s["rv"]):
            ctx.ok("R01.1", "%s|write-classified" % f.name, "the written total is clamped into [0, limit]: bounded by construction (exactness is C05's concern)", f.where(s["bb"], s["idx"]))
            continue
        ctx.check(s["kind"] != "unclassified" and s.get("exact", True), "R01.1", "%s|write-classified" % f.name,
                  "a write to the total weight is exactly `+= x`, `-= x` or `= 0` (a clamped or saturating update silently drops weight that the per-key map still records)",
                  f.where(s["bb"], s["idx"]), "%s%s: %s" % (s["kind"], "" if s.get("exact", True) else " (inexact)", fmt(s["rv"])))
    ctx.check("increase" in kinds and "decrease" in kinds and "reset" in kinds, "R01.1", "kinds-present",
              "increase, decrease and reset writes all exist (sanity of the classification)", detail=str(sorted(kinds)))

    # R01.2
    for s in M.inc_sites:
        f = s["fn"]
        if clamped_to_limit(s["rv"]):
            ctx.ok("R01.2", "%s|increase-guarded" % f.name, "the increase is clamped to the limit", f.where(s["bb"], s["idx"]))
            continue
        ok, why = M.guarded_site(f, s["bb"], s["amount"])
        ctx.check(ok, "R01.2", "%s|increase-guarded" % f.name,
                  "every increase of the total weight is dominated by a space check for the same amount (available >= amount), on every path from the command handler",
                  f.where(s["bb"], s["idx"]), "amount=%s; %s" % (fmt(s["amount"]), why))

    # R01.3
    spawn = F.spawn_closures()
    reachers = []
    for cdef in spawn:
        for nid in F.insts_of(cdef):
            r = F.inst_reach([nid], stop=lambda n, me=nid: n != me and F.def_of(n) in spawn)
            if any(F.def_of(n) in {s["fn"].name for s in M.inc_sites} for n in r):
                reachers.append(cdef)
    reachers = sorted(set(reachers))
    ctx.check(len(reachers) == 1, "R01.3", "single-increasing-thread",
              "exactly one spawned thread (the command worker) can reach an increase of the total weight", detail=str(reachers))
    pub_reach = []
    for name, f in F.fns.items():
        if f.rec.get("reachable") and f.kind != "Closure":
            for nid in F.insts_of(name):
                r = F.inst_reach([nid], stop=lambda n: F.def_of(n) in spawn)
                hit = [F.def_of(n) for n in r if F.def_of(n) in {s["fn"].name for s in M.inc_sites}]
                if hit:
                    pub_reach.append((name, hit[0]))
    ctx.check(not pub_reach, "R01.3", "no-caller-thread-increase",
              "no public API function reaches an increase of the total weight on the caller's thread", detail=str(pub_reach[:5]))
    ctx.analysed["call_sites"] += len(spawn)

    # R01.4
    accounting_flow(ctx, M, "R01.4")

    # R01.5
    for q in M.queries:
        ctx.touch(q)
        r = q.origin_local(0)
        ok = False
        detail = fmt(r)
        if r[0] == "agg" and len(r[3]) == 2:
            A = r[3][0][1]
            P = r[3][1][1]
            a_ok = (A[0] == "binop" and A[1] == "Sub" and A[2][0] == "field" and A[2][1] == ("param", 1)
                    and any(lock_call({"rpath": c[1], "gargs": ["", "i64"]}) for c in root_calls(A[3])))
            p_ok = P == ("binop", "Le", ("param", 2), A)
            ok = a_ok and p_ok
        ctx.check(ok, "R01.5", "%s|space-predicate" % q.name,
                  "the space query returns (max - used, (max - used) >= weight)", q.where(), detail)
        # max is the configured total weight: the field is only written by the constructor
        if ok:
            maxf = r[3][0][1][2][2]
            writers = []
            for name, f in F.fns.items():
                for (b, i, tgt, rv, st) in f.stores():
                    if tgt[0] == "field" and tgt[2] == maxf and "CacheWeight" in f.locals[1]["ty"] if f.argc else False:
                        writers.append(name)
            ctx.check(not writers, "R01.5", "%s|max-immutable" % q.name, "the limit field is never reassigned after construction", detail=str(writers))


def clamped_to_limit(rv):
    """`(total +/- x).clamp(0, self.max_weight)`"""
    return isinstance(rv, tuple) and rv and rv[0] == "call" and rv[1].endswith("::clamp") and len(rv[2]) == 3 \
        and rv[2][1][:2] == ("const", 0) and rv[2][2][0] == "field" and rv[2][2][2] == "max_weight"
