"""C18 — no deadlock: lock-order graph acyclic, no blocking operation under a guard, background threads
never block on a send, guards not stored in long-lived state.  (DESIGN §4 C18)"""
from core import classify_external, lock_class, callee_path

LEVEL = "proof"
EXPLANATION = ("Every acquire site of every function instance reachable in the crate contributes 'held -> acquired' "
               "edges (held = lock classes of initialised guard-typed locals, A4; acquired = transitive effect "
               "summary of the callee, A5). Acyclicity of that graph (self-edges included) plus 'no blocking "
               "channel/thread operation while any guard is live' plus 'background threads only block on receiving "
               "from their own queue' gives: a thread waiting on a queue holds no lock, queue consumers wait only "
               "on locks, lock waits are acyclic => no wait cycle under any interleaving.")
ASSUMPTIONS = ["USER callbacks (clock, weight fn, hash fn, Key/Value trait impls, wakers, logger) do not lock or re-enter the cache",
               "dashmap: one shard lock per call; iterators take shard read locks in ascending order, one at a time",
               "the caller does not keep a get_ref guard alive while calling back into the cache (stated exclusion)"]
TRUSTED = ["lock classes are by protected data type: all shards of a map are one class (over-approximation)"]

EXPECTED_CLASSES = {"S", "KW", "WU", "T", "AF", "PB", "AS", "AW"}


def lock_fields(ctx):
    """inventory: lock-typed fields of the crate's ADTs -> class"""
    out = {}
    for name, adt in ctx.facts.adts.items():
        for v in adt["variants"]:
            for f in v["fields"]:
                ty = f["ty"]
                cls = None
                if "dashmap::DashMap<" in ty:
                    cls = lock_class(ty)
                elif "lock_api::RwLock<" in ty or "lock_api::Mutex<" in ty:
                    inner = ty[ty.index("lock_api::") :]
                    # data type = last generic argument of the lock type
                    depth = 0
                    args = []
                    cur = ""
                    for ch in inner[inner.index("<") + 1 :]:
                        if ch == "<":
                            depth += 1
                        if ch == ">":
                            if depth == 0:
                                args.append(cur.strip())
                                break
                            depth -= 1
                        if ch == "," and depth == 0:
                            args.append(cur.strip())
                            cur = ""
                            continue
                        cur += ch
                    cls = lock_class(args[-1]) if args else None
                if cls:
                    out["%s.%s" % (name, f["name"])] = cls
    return out


def run(ctx):
    F = ctx.facts
    eff = F.effects()

    inv = lock_fields(ctx)
    classes = set(inv.values())
    ctx.floor("R18.1", "lock-typed fields in the crate's ADTs", len(inv), 6)
    unknown = sorted(c for c in classes if c.startswith("?"))
    ctx.check(not unknown, "R18.1", "lock-classes-known", "every lock field maps to a known lock class", detail=str(unknown))
    ctx.check(EXPECTED_CLASSES <= classes, "R18.1", "lock-classes-complete",
              "the eight lock classes confirmed by reading are all present", detail=str(sorted(classes)))

    edges, blocking_under_guard, n_sites, n_insts = lock_graph(ctx)

    ctx.analysed["call_sites"] = n_sites

    # self edges and cycles
    graph = {}
    for (h, a), sites in edges.items():
        graph.setdefault(h, set()).add(a)
    for (h, a), sites in sorted(edges.items()):
        f, bb, callee = sites[0]
        if h == a:
            for f, bb, callee in sites:
                ctx.bad("R18.2", "%s|self-edge|%s|%s" % (f.name, h, short_callee(callee)),
                        "a lock of class %s is acquired while a guard of the same class is held (self-deadlock / shard-order inversion)" % h,
                        f.where(bb), "callee %s" % callee)
    cyc = find_cycle(graph)
    ctx.check(cyc is None, "R18.2", "lock-order-acyclic",
              "the held->acquired lock-order graph over all function instances is acyclic",
              detail=("cycle %s; e.g. %s" % (" -> ".join(cyc), [(h + "->" + a, s[0][0].where(s[0][1])) for (h, a), s in edges.items() if h in cyc and a in cyc])) if cyc else
              "edges: " + ", ".join(sorted("%s->%s" % e for e in edges if e[0] != e[1])))
    for (h, a), sites in sorted(edges.items()):
        if h != a:
            ctx.ok("R18.2", "edge|%s->%s" % (h, a), "lock-order edge observed at %d site(s)" % len(sites), sites[0][0].where(sites[0][1]),
                   "; ".join(sorted({s[0].name.split("cache::")[-1] for s in sites}))[:300])
    ctx.floor("R18.2", "lock-order edges (sanity: the analysis sees nested acquisitions)", len([e for e in edges if e[0] != e[1]]), 4)

    # R18.3
    for f, bb, callee, w, held in blocking_under_guard:
        ctx.bad("R18.3", "%s|%s|%s" % (f.name, w, short_callee(callee)),
                "blocking operation (%s) reachable while guard(s) %s are held" % (w, held), f.where(bb), "callee %s" % callee)
    ctx.check(not blocking_under_guard, "R18.3", "no-blocking-under-guard",
              "no blocking channel/thread operation is reachable from a call made while a lock guard is live (%d guarded call sites analysed)" % n_sites)

    # R18.4 background threads
    spawn = F.spawn_closures()
    ctx.floor("R18.4", "thread::spawn closures", len(spawn), 3)
    for cdef, parent in sorted(spawn.items()):
        for nid in F.insts_of(cdef):
            blk = eff[nid]["block"]
            if "chan_recv" not in blk:
                # not the consumer of any queue: it cannot be part of a queue wait cycle; blocking on a send is
                # then harmless as long as no lock is held (R18.3)
                ctx.ok("R18.4", "%s|not-a-queue-consumer" % cdef, "a spawned thread that consumes no queue may wait on a send (it holds no lock there, R18.3)", F.fn(cdef).where(), "blocking effects: %s" % sorted(blk))
                continue
            ctx.check(blk <= {"chan_recv"}, "R18.4", "%s|background-blocks-only-on-recv" % cdef,
                      "a thread that consumes a queue blocks only on receiving from it (never on a send, sleep or join): queue waits cannot form a cycle",
                      F.fn(cdef).where(), "blocking effects: %s" % sorted(blk))
            # exactly one distinct receiver is blocked on directly in the closure body
            f = F.fn(cdef)
            recvs = set()
            for bb, t in f.calls():
                for kk, w in classify_external({"rpath": t.get("rpath"), "callee": t["callee"], "gargs": t.get("gargs", []), "k": "ext"}):
                    if kk == "block":
                        recvs.add(repr(strip_recv(f.op_origin(t["args"][0]))))
            ctx.check(len(recvs) <= 1, "R18.4", "%s|one-queue" % cdef, "the thread waits on a single queue", f.where(), str(sorted(recvs)))

    # R18.5 guards in long-lived state / escaping to users
    holders = []
    for name, adt in F.adts.items():
        for v in adt["variants"]:
            for fl in v["fields"]:
                if fl.get("holds_guard"):
                    holders.append((name, fl["name"], adt["reachable"]))
    for name, fld, reach in holders:
        ctx.check(name.endswith("key_value_ref::KeyValueRef"), "R18.5", "%s.%s|guard-in-field" % (name, fld),
                  "lock guards are not stored in struct fields (only the get_ref handle, the stated exclusion)")
    esc = []
    for name, f in F.fns.items():
        if f.rec.get("reachable") and f.guard_classes(0):
            esc.append(name)
    for name in esc:
        ctx.check(name.endswith("::get_ref") and "CacheD" in name, "R18.5", "%s|guard-escapes" % name,
                  "the only public function returning a guard-holding value is CacheD::get_ref", F.fn(name).where())
    ctx.floor("R18.5", "public functions returning a guard (get_ref)", len(esc), 1)



def lock_graph(ctx, record_ok=True):
    """(edges {(held, acquired): [(fn, bb, callee)]}, blocking_under_guard, guarded call sites, instances)"""
    F = ctx.facts
    eff = F.effects()
    edges = {}      # (held, acquired) -> list of sites
    blocking_under_guard = []
    n_sites = 0
    n_insts = 0
    for nd in F.nodes:
        if not nd.get("local") or "calls" not in nd:
            continue
        f = F.fn(nd["def"])
        if f is None:
            continue
        n_insts += 1
        ctx.touch(f)
        for bb, k, tgt, c in F.inst_edges(nd["id"]):
            held_locals = f.live_guards_before_term(bb)
            if not held_locals:
                continue
            held = set()
            for l in held_locals:
                held |= set(f.guard_classes(l))
            if k in ("local", "cb"):
                acq = set(eff[tgt]["acquire"])
                blk = set(eff[tgt]["block"])
                callee = F.def_of(tgt)
            else:
                e = classify_external(c)
                acq = {w for kk, w in e if kk == "acquire"}
                blk = {w for kk, w in e if kk == "block"}
                callee = callee_path(c)
            n_sites += 1
            for h in held:
                for a in acq:
                    if h == a and is_iter_advance(f, bb, c, held_locals, h):
                        if record_ok:
                            ctx.ok("R18.2", "%s|iter-advance|%s" % (f.name, h),
                                   "same-class acquisition is a dashmap iterator advancing to the next shard (ascending read locks, model §3.7)", f.where(bb))
                        continue
                    edges.setdefault((h, a), []).append((f, bb, callee))
            for w in blk:
                blocking_under_guard.append((f, bb, callee, w, sorted(held)))

    return edges, blocking_under_guard, n_sites, n_insts


def strip_recv(e):
    """the receiver a blocking receive operates on: peel Receiver::iter / IntoIterator wrappers"""
    while isinstance(e, tuple) and e and e[0] == "call" and ("Receiver::<T>::iter" in e[1] or "into_iter" in e[1] or "Receiver::<T>::try_iter" in e[1]) and e[2]:
        e = e[2][0]
    if isinstance(e, tuple) and e and e[0] == "phi":
        outs = sorted({repr(strip_recv(x)) for x in e[1]})
        return outs[0] if len(outs) == 1 else tuple(outs)
    return e


def short_callee(c):
    import re
    return re.sub(r"<[^<>]*>", "", re.sub(r"<[^<>]*>", "", c)).split("::")[-1]


def is_iter_advance(f, bb, c, held_locals, cls):
    p = callee_path(c)
    if not ("dashmap::iter::Iter<" in p and p.endswith("::next")):
        return False
    for l in held_locals:
        if cls in f.guard_classes(l):
            ty = f.locals[l]["ty"]
            if not (ty.startswith("dashmap::iter::Iter<") or ty.startswith("dashmap::mapref::multiple::RefMulti<")
                    or ty.startswith("std::option::Option<dashmap::mapref::multiple::RefMulti<")):
                return False
    return True


def find_cycle(graph):
    WHITE, GREY, BLACK = 0, 1, 2
    color = {}
    stack = []

    def dfs(u):
        color[u] = GREY
        stack.append(u)
        for v in sorted(graph.get(u, ())):
            if v == u:
                continue
            if color.get(v, WHITE) == GREY:
                return stack[stack.index(v):] + [v]
            if color.get(v, WHITE) == WHITE:
                r = dfs(v)
                if r:
                    return r
        stack.pop()
        color[u] = BLACK
        return None

    for u in sorted(graph):
        if color.get(u, WHITE) == WHITE:
            r = dfs(u)
            if r:
                return r
    return None


def cycle_through(ctx, start_defs):
    """(cycle, self-nesting sites) of the lock-order graph that involve code reachable from the given function defs"""
    F = ctx.facts
    edges, _bug, _n, _i = lock_graph(ctx, record_ok=False)
    graph = {}
    for (h, a2), sites in edges.items():
        graph.setdefault(h, set()).add(a2)
    cyc = find_cycle(graph)
    relevant = set()
    for d in start_defs:
        for nid in F.insts_of(d):
            relevant |= {F.def_of(n) for n in F.inst_reach([nid])}
    bad_cycle = None
    if cyc:
        cyc_edges = [(h, a2) for (h, a2) in edges if h in cyc and a2 in cyc and h != a2]
        if any(s[0].name in relevant for e in cyc_edges for s in edges[e]):
            bad_cycle = cyc
    bad_self = [(h, s[0].where(s[1])) for (h, a2), sites in edges.items() if h == a2 for s in sites if s[0].name in relevant]
    return bad_cycle, bad_self
