"""C07 — put never overwrites; 'key already exists' only for keys that can be read.  (DESIGN §4 C07)"""
from core import (strip_site, same_value, fmt, inline_ctor, site_effects, is_effectful, enum_paths, path_atoms,
                  path_return, subexprs, mentions, bool_branches, dashmap_call)
from livemodel import LiveModel
from storemodel import StoreModel
from ackmodel import AckModel

from sym import ipaths

LEVEL = "other"
EXPLANATION = ("Every queued Put/PutWithTTL of the put APIs is dominated by the false edge of the store's presence "
               "predicate for the same key; the true edge answers rejected(KeyAlreadyExists) on the spot without "
               "effects; and the presence predicate must agree with what reads see, i.e. apply the liveness "
               "predicate to the entry it finds (R07.3) - otherwise a key that reads as absent (expired but not yet "
               "swept, or soft-deleted) is refused as 'already exists'. Every Ok answer of a put API, synthesised "
               "acknowledgements included, lies on a path that evaluated the presence predicate (R07.10).")
ASSUMPTIONS = ["the worker-side re-check (C05 R05.3) uses the same presence predicate"]

EXEMPT_LOOKUPS = {
    # function suffix -> reason it may look at an entry without the liveness predicate
}


def run(ctx):
    F = ctx.facts
    L = LiveModel(ctx)
    S = StoreModel(ctx)
    A = AckModel(ctx)
    ctx.floor("R07.1", "presence / readability predicates over the store", len(S.presence_fns) + len(S.readable_fns) + len(S.filtered_presence_fns), 1)
    # ---- R07.1 / R07.2 ------------------------------------------------------------------------------
    n_api = 0
    preds = set(S.presence_fns) | set(S.readable_fns) | set(S.filtered_presence_fns)
    pred_key = dict(S.presence_fns)
    pred_key.update(S.readable_fns)
    pred_key.update(S.filtered_presence_fns)
    api_ret = lambda g: "CommandAcknowledgement" in g.rec.get("ret", "")
    for name, f in F.fns.items():
        if not f.rec.get("reachable") or f.kind == "Closure" or not api_ret(f):
            continue
        # the upsert API reaches its Put through a failed in-place update (C08 R08.5), not through a presence test
        if any(dashmap_lookup_fn(F, S, t.get("rpath")) == "get_mut" for b, t in f.calls()):
            continue
        # another public API it forwards to is judged on its own
        stop = lambda n, me=name: n in A.send_fns or n in preds or (n != me and n in F.fns and F.fns[n].rec.get("reachable") and api_ret(F.fns[n]) and F.fns[n].kind != "Closure")
        paths = ipaths(F, f, stop=stop, depth=2)
        put_paths = []
        for p in paths:
            for e in p.calls(A.send_fns):
                cmd = e.args[1]
                if cmd[0] == "agg" and cmd[2] in ("Put", "PutWithTTL"):
                    put_paths.append((p, e, cmd))
        if not put_paths:
            continue
        n_api += 1
        ctx.touch(f)
        ctx.analysed["paths"] += len(paths)
        bad1, badk = [], []
        for p, e, cmd in put_paths:
            kd = inline_ctor(F, cmd[3][0][1])
            key = dict(kd[3]).get("key") if kd[0] == "agg" else None
            if key is None:
                bad1.append("the key carried by the queued put could not be determined (%s)" % fmt(cmd)[:100])
                continue
            tested = [a for a in p.atoms if a[0] == "bool" and a[1][0] == "call" and a[1][1] in preds and a[4] < e.seq
                      and same_value(a[1][2][pred_key[a[1][1]] - 1], key)]
            if not tested or any(a[2] for a in tested):
                bad1.append("a put is queued on a path that did not find this key absent (%s)" % p.show())
            if key[0] != "param":
                badk.append(fmt(key))
        ctx.check(not bad1, "R07.1", "%s|absence-dominates-queueing" % name,
                  "a put is queued only after the presence predicate reported this key absent (%d symbolic paths queue a put)" % len(put_paths), f.where(), "; ".join(bad1[:2]))
        ctx.check(not badk, "R07.1", "%s|same-key" % name, "the key tested is the key passed by the caller", f.where(), str(badk[:2]))
        # present: immediate rejection without effects
        bad2 = []
        n_present = 0
        for p in paths:
            pres = [a for a in p.atoms if a[0] == "bool" and a[1][0] == "call" and a[1][1] in preds and a[2]]
            if not pres:
                continue
            n_present += 1
            eff = [e for e in p.events if not e.log and e.seq > pres[0][4] and (e.callee in A.send_fns or is_effectful(site_effects(F, e.fn, e.bb)))]
            okv = p.ret_variant() == ("Ok",) and mentions(p.ret, lambda s_: s_[0] == "agg" and s_[2] == "KeyAlreadyExists")
            if eff or not okv:
                bad2.append("present key: effects %s, returned %s" % ([x.callee.split("::")[-1] for x in eff][:3], fmt(p.ret)[:80]))
        # R07.6 a put may be refused for any *other* reason only after its key was found absent: a refusal decided before
        # the presence test (e.g. a fast path on the weight) would answer a readable key with the wrong reason
        bad6 = []
        for p in paths:
            reasons = {x[2] for x in subexprs(p.ret) if x[0] == "agg" and x[1].endswith("command::RejectionReason") and x[2]}
            others = reasons - {"KeyAlreadyExists"}
            if others and not any(a[0] == "bool" and a[1][0] == "call" and a[1][1] in preds and not a[2] for a in p.atoms):
                bad6.append("refused with %s on a path that never tested whether the key is present (%s)" % (sorted(others), p.show()))
        ctx.check(not bad6, "R07.6", "%s|other-refusals-only-for-absent-keys" % name,
                  "a put answers with a reason other than KeyAlreadyExists only after the presence predicate reported its key absent", f.where(), "; ".join(bad6[:2]))
        # R07.10 every verdict of a put API is given after the presence test: an Ok answer (synthesised Accepted included)
        # on a path that never asked whether the key is present tells the caller of a readable key something other than
        # 'key already exists' (shutdown / channel errors are Err and exempt; forwarding to another API is judged there)
        other_apis = {n for n in F.fns if n != name and F.fns[n].rec.get("reachable") and api_ret(F.fns[n]) and F.fns[n].kind != "Closure"}
        bad10 = []
        for p in paths:
            if p.ret_variant() != ("Ok",) or p.calls(other_apis):
                continue
            if not any(a[0] == "bool" and a[1][0] == "call" and a[1][1] in preds for a in p.atoms):
                bad10.append("answers Ok(%s) on a path that never tested whether the key is present (%s)" % (fmt(p.ret)[:60], p.show()))
        ctx.check(not bad10, "R07.10", "%s|every-verdict-after-presence-test" % name,
                  "every Ok answer of a put API (queued or synthesised, accepted or rejected) is given on a path that tested the presence predicate", f.where(), "; ".join(bad10[:2]))
        ctx.check(not bad2 and n_present >= 1, "R07.2", "%s|present-rejects-without-effect" % name,
                  "when the key is present the put is answered Ok(rejected(KeyAlreadyExists)) immediately, nothing is queued or changed", f.where(), "; ".join(bad2[:2]))
    ctx.floor("R07.1", "put APIs queueing Put/PutWithTTL behind a presence test", n_api, 3)
    # forwarding put -> put_with_weight keeps key and value
    for name, f in F.fns.items():
        if f.rec.get("reachable") and f.kind != "Closure" and "CommandAcknowledgement" in f.rec.get("ret", ""):
            for bb, t in f.calls():
                g = F.fns.get(t.get("rpath") or "")
                if g is not None and g.rec.get("reachable") and "CommandAcknowledgement" in g.rec.get("ret", "") and g.rec.get("self_ty") == f.rec.get("self_ty"):
                    args = [f.op_origin(a) for a in t["args"]]
                    ctx.check(args[1] == ("param", 2) and args[2] == ("param", 3), "R07.1", "%s|forwards-key-value" % name,
                              "the convenience put forwards its key and value unchanged", f.where(bb))

    # ---- R07.5 the caller's test can be stale when the command runs: the worker re-tests before it inserts ---------
    # put handlers = the outermost status-returning functions on whose paths (helpers inlined) a store insert happens
    import c05
    n_h = 0
    status_fns = {n for n, g in F.fns.items() if g.kind != "Closure" and g.rec.get("ret", "").endswith("CommandStatus")}
    hstop = lambda n: n in S.insert_fns or n in preds
    hc = {}
    for n in sorted(status_fns):
        h = F.fns[n]
        if not any(t["res"] == "item" and t.get("rlocal") for b, t in h.calls()):
            continue
        ps = ipaths(F, h, stop=hstop, depth=2)
        if any(p.calls(S.insert_fns) for p in ps):
            hc[n] = (h, ps)
    outer = [n for n in hc if not any(t.get("rpath") == n for m in hc if m != n for b, t in hc[m][0].calls())]
    for name in outer:
        h, ps = hc[name]
        n_h += 1
        ctx.touch(h)
        bad, badp = [], []
        n_present = 0
        for p in ps:
            for e in p.calls(S.insert_fns):
                kp, ip = c05.insert_params(F, F.fns[e.callee])
                key = e.args[kp - 1] if kp else None
                tested = [a for a in p.atoms if a[0] == "bool" and a[1][0] == "call" and a[1][1] in preds and a[4] < e.seq
                          and key is not None and same_value(a[1][2][pred_key[a[1][1]] - 1], key)]
                if not tested or any(a[2] for a in tested):
                    bad.append("insert of %s on a path that did not find the key absent at execution time (%s)" % (fmt(key)[:40] if key is not None else "?", p.show()))
            pres = [a for a in p.atoms if a[0] == "bool" and a[1][0] == "call" and a[1][1] in preds and a[2]]
            if pres:
                n_present += 1
                r = p.ret
                if not (p.ret_variant() == ("Rejected",) and mentions(r, lambda s_: s_[0] == "agg" and s_[2] == "KeyAlreadyExists")) or p.calls(S.insert_fns):
                    badp.append("present key answered %s" % fmt(r)[:60])
        ctx.check(not bad, "R07.5", "%s|worker-retests-before-insert" % name,
                  "on the worker a put inserts only after the presence / readability predicate reported its key absent at execution time (an earlier queued put of the same key may have been applied since the caller looked)",
                  h.where(), "; ".join(bad[:2]))
        ctx.check(not badp and n_present >= 1, "R07.5", "%s|present-is-rejected" % name, "a key found present at execution time is answered Rejected(KeyAlreadyExists)", h.where(), "; ".join(badp[:2]))
    ctx.floor("R07.5", "put handlers on the worker", n_h, 1)
    # ---- R07.8 the worker's presence re-check comes before the admission decision: admission has effects (it evicts - a
    # queued duplicate put has its own live incarnation among the candidates), so "admit, then look, then give the weight
    # back" can remove the readable entry and then find the key absent
    from weight import WeightModel
    M_ = WeightModel(ctx)
    charge_ = {s_["fn"].name for s_ in M_.inc_sites if s_["amount"][0] != "binop" or s_["amount"][1] != "Sub"}
    admit_ = {n for n, f in F.fns.items() if f.rec.get("ret", "").endswith("command::CommandStatus") and any(t.get("rpath") in charge_ for b, t in f.calls())}
    from sym import focus as focus_
    astop = focus_(F, admit_ | set(S.insert_fns) | set(preds))
    for name in outer:
        h, _ = hc[name]
        bad8 = []
        for p in ipaths(F, h, stop=astop, depth=3):
            for e in p.calls(admit_):
                if not any(a[0] == "bool" and a[1][0] == "call" and a[1][1] in preds and a[4] < e.seq for a in p.atoms):
                    bad8.append("admission runs before the key's presence was tested (%s)" % p.show())
        ctx.check(not bad8, "R07.8", "%s|presence-test-before-admission" % name,
                  "on the worker the presence / readability test of the put's key precedes the admission decision (which may evict)", h.where(), "; ".join(sorted(set(bad8))[:2]))
    # ---- R07.9 (= C12 R12.1) the verdict reaches the caller: `Rejected(KeyAlreadyExists)` decided by the worker is what the
    # acknowledgement resolves to - the status is published before the completion flag, else an awaiting put can read the
    # placeholder status instead of the rejection (or of `Accepted`)
    for o in ctx.own_of("c12"):
        if o["rule"] == "R12.1":
            ctx._add(o["status"], "R07.9", o["key"].split("|", 1)[1], o["desc"], o["where"], o["detail"])
    # ---- R07.7 nothing is taken out of the store for a put before its key has been found not readable: a removal that
    # precedes the presence test must itself be conditioned on exactly "not alive" (the liveness predicate of R09.1), else an
    # entry that reads are still serving (e.g. at its expiry instant) is removed and the put is admitted over it
    from sym import focus, bool_outcomes
    rstop = focus(F, set(S.insert_fns) | set(preds) | set(S.remove_fns))

    def removes_only_dead(gname):
        g = F.fns[gname]
        sites = [(h, b, t) for h in [g] + F.closures_of(g) for b, t in h.calls() if (dashmap_call(t) or ("", ""))[1] == "S" and dashmap_call(t)[0] in ("remove", "remove_if", "remove_if_mut")]
        if not sites:
            return False
        for h, b, t in sites:
            if dashmap_call(t)[0] == "remove" or len(t["args"]) < 3:
                return False
            clo = h.op_origin(t["args"][2])
            if not (clo[0] == "agg" and clo[1] in F.fns):
                return False
            rows = set()
            for p_ in ipaths(F, F.fns[clo[1]], stop=lambda n_: n_ in L.alive_fns, depth=2):
                for atoms, res in bool_outcomes(p_):
                    al = [a for a in atoms if a[0] == "bool" and a[1][0] == "call" and a[1][1] in L.alive_fns and a[1][2] and mentions(a[1][2][L.alive_param.get(a[1][1], 1) - 1], lambda s_: s_ == ("param", 3))]
                    rows.add((al[0][2] if al else None, res))
            if rows != {(True, False), (False, True)}:
                return False
        return True
    for name in outer:
        h, _ = hc[name]
        bad7 = []
        for p in ipaths(F, h, stop=rstop, depth=3):
            ins = p.calls(S.insert_fns)
            if not ins:
                continue
            kp, ip = c05.insert_params(F, F.fns[ins[0].callee])
            key = ins[0].args[kp - 1] if kp else None
            absent = [a[4] for a in p.atoms if a[0] == "bool" and a[1][0] == "call" and a[1][1] in preds and not a[2] and key is not None and same_value(a[1][2][pred_key[a[1][1]] - 1], key)]
            t0 = min(absent) if absent else None
            for e in p.calls(S.remove_fns):
                if key is not None and any(same_value(a, key) for a in e.args[1:]) and (t0 is None or e.seq < t0) and not removes_only_dead(e.callee):
                    bad7.append("%s removes the put's key before the key was found not readable" % e.callee.split("::")[-1])
        ctx.check(not bad7, "R07.7", "%s|no-removal-before-presence-test" % name,
                  "a put takes the key's old entry out of the store only after the presence predicate reported the key not readable (or through a removal conditioned on exactly the liveness predicate)", h.where(), "; ".join(sorted(set(bad7))[:2]))

    # ---- R07.4 the existence test must wait for the shard: try_* lookups answer "absent" while a writer holds it
    for m in ("try_get", "try_get_mut"):
        for f, bb, t in S.ops.get(m, []):
            if f.rec.get("ret") == "bool":
                ctx.bad("R07.4", "%s|non-blocking-existence-test" % f.name,
                        "an existence test must use a blocking lookup: DashMap::%s reports Locked (treated as absent) whenever another thread write-locks the shard, so a put of a live key would be admitted and overwrite it" % m,
                        f.where(bb))
    # ---- R07.3 presence agrees with readability -------------------------------------------------------
    for pname in sorted(S.readable_fns):
        ctx.ok("R07.3", "%s|presence-honours-liveness" % pname, "the predicate deciding 'key already exists' is defined through the liveness-filtered lookup", F.fn(pname).where())
    for pname in sorted(set(S.presence_fns) | set(S.filtered_presence_fns)):
        f = F.fn(pname)
        used = any(t.get("rpath") == pname for n, g in F.fns.items() if g.rec.get("reachable") and g.kind != "Closure" for b, t in g.calls())
        if not used:
            continue        # a physical-presence helper that no put API consults is not C07's subject
        ctx.touch(f)
        for g, bb, t in S.lookup_sites:
            if g is not f:
                continue
            ok, form = L.lookup_applies_liveness(f, bb, t)
            if dashmap_call(t)[0] == "contains_key":
                ok, form = False, "contains_key cannot see liveness"
            ctx.check(ok, "R07.3", "%s|presence-honours-liveness" % pname,
                      "the presence predicate deciding 'key already exists' applies is_alive to the entry it finds (a key that reads as absent must not be refused as existing)",
                      f.where(bb), form)


def dashmap_lookup_fn(F, S, fname):
    """'get_mut' if the function looks the store up mutably anywhere (the in-place update), else its lookup kind"""
    kinds = [dashmap_call(t)[0] for g, bb, t in S.lookup_sites if g.name == fname]
    if "get_mut" in kinds:
        return "get_mut"
    return kinds[0] if kinds else None
