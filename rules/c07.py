"""C07 — put never overwrites; 'key already exists' only for keys that can be read.  (DESIGN §4 C07)"""
from core import (strip_site, same_value, fmt, inline_ctor, site_effects, is_effectful, enum_paths, path_atoms,
                  path_return, subexprs, mentions, bool_branches, dashmap_call)
from livemodel import LiveModel
from storemodel import StoreModel
from ackmodel import AckModel

LEVEL = "other"
EXPLANATION = ("Every queued Put/PutWithTTL of the put APIs is dominated by the false edge of the store's presence "
               "predicate for the same key; the true edge answers rejected(KeyAlreadyExists) on the spot without "
               "effects; and the presence predicate must agree with what reads see, i.e. apply the liveness "
               "predicate to the entry it finds (R07.3) - otherwise a key that reads as absent (expired but not yet "
               "swept, or soft-deleted) is refused as 'already exists'.")
ASSUMPTIONS = ["the worker-side re-check (C05 R05.3) uses the same presence predicate"]

EXEMPT_LOOKUPS = {
    # function suffix -> reason it may look at an entry without the liveness predicate
}


def run(ctx):
    F = ctx.facts
    L = LiveModel(ctx)
    S = StoreModel(ctx)
    A = AckModel(ctx)
    ctx.floor("R07.1", "presence / readability predicates over the store", len(S.presence_fns) + len(S.readable_fns) + len(S.filtered_presence_fns), 1)
    # ---- R07.1 / R07.2 ------------------------------------------------------------------------------
    n_api = 0
    for name, f in F.fns.items():
        if not f.rec.get("reachable") or f.kind == "Closure":
            continue
        sends = []
        for bb, t in f.calls():
            if t.get("rpath") in A.send_fns:
                cmd = f.op_origin(t["args"][1])
                if cmd[0] == "agg" and cmd[2] in ("Put", "PutWithTTL"):
                    sends.append((bb, t, cmd))
        if not sends:
            continue
        # the upsert API reaches its Put through a failed in-place update (C08 R08.5), not through a presence test
        if any(dashmap_lookup_fn(F, S, t.get("rpath")) == "get_mut" for b, t in f.calls()):
            continue
        n_api += 1
        ctx.touch(f)
        for bb, t, cmd in sends:
            kd = inline_ctor(F, cmd[3][0][1])
            key = dict(kd[3]).get("key") if kd[0] == "agg" else None
            if key is None:
                ctx.bad("R07.1", "%s|command-key" % name, "the key carried by the queued put could not be determined", f.where(bb), fmt(cmd)[:200])
                continue
            edges = S.absence_edges(f, key, readable_too=True)
            ok = bool(edges) and bb not in f.reach([0], avoid_edges=edges)
            ctx.check(ok, "R07.1", "%s|absence-dominates-queueing" % name,
                      "a put is queued only after the presence predicate reported this key absent", f.where(bb), "key=%s" % fmt(key))
            ctx.check(key[0] == "param", "R07.1", "%s|same-key" % name, "the key tested is the key passed by the caller", f.where(bb))
        # true edge: immediate rejection without effects
        for b, expr, tt, ft in bool_branches(f):
            if expr[0] == "call" and (expr[1] in S.presence_fns or expr[1] in S.readable_fns or expr[1] in S.filtered_presence_fns):
                region = f.reach([tt])
                eff = [x for x in region if f.term(x)["k"] == "call" and is_effectful(site_effects(F, f, x))]
                vals = []
                for p in enum_paths(f):
                    if (b, tt) in zip(p, p[1:]):
                        r = path_return(f, p)
                        vals.append(r)
                okv = bool(vals) and all(r[0] == "agg" and r[2] == "Ok" and mentions(r, lambda s: s[0] == "agg" and s[2] == "KeyAlreadyExists") for r in vals)
                ctx.check(not eff and okv, "R07.2", "%s|present-rejects-without-effect" % name,
                          "when the key is present the put is answered Ok(rejected(KeyAlreadyExists)) immediately, nothing is queued or changed", f.where(b))
    ctx.floor("R07.1", "put APIs queueing Put/PutWithTTL behind a presence test", n_api, 3)
    # forwarding put -> put_with_weight keeps key and value
    for name, f in F.fns.items():
        if f.rec.get("reachable") and f.kind != "Closure" and "CommandAcknowledgement" in f.rec.get("ret", ""):
            for bb, t in f.calls():
                g = F.fns.get(t.get("rpath") or "")
                if g is not None and g.rec.get("reachable") and "CommandAcknowledgement" in g.rec.get("ret", "") and g.rec.get("self_ty") == f.rec.get("self_ty"):
                    args = [f.op_origin(a) for a in t["args"]]
                    ctx.check(args[1] == ("param", 2) and args[2] == ("param", 3), "R07.1", "%s|forwards-key-value" % name,
                              "the convenience put forwards its key and value unchanged", f.where(bb))

    # ---- R07.5 the caller's test can be stale when the command runs: the worker re-tests before it inserts ---------
    n_h = 0
    for name, h in F.fns.items():
        if h.kind == "Closure":
            continue
        ins = [(b, t) for b, t in h.calls() if t.get("rpath") in S.insert_fns]
        if not ins or not h.rec.get("ret", "").endswith("CommandStatus"):
            continue
        n_h += 1
        ctx.touch(h)
        for b, t in ins:
            g = F.fns[t["rpath"]]
            import c05
            kp, ip = c05.insert_params(F, g)
            key = h.op_origin(t["args"][kp - 1]) if kp else None
            edges = S.absence_edges(h, key, readable_too=True) if key is not None else []
            ok = bool(edges) and b not in h.reach([0], avoid_edges=edges)
            ctx.check(ok, "R07.5", "%s|worker-retests-before-insert" % name,
                      "on the worker a put inserts only after the presence / readability predicate reported its key absent at execution time (an earlier queued put of the same key may have been applied since the caller looked)",
                      h.where(b), "key=%s" % (fmt(key) if key is not None else "?"))
            # and the readable case is answered KeyAlreadyExists
            for bb, expr, tt, ft in bool_branches(h):
                if expr[0] == "call" and (expr[1] in S.presence_fns or expr[1] in S.readable_fns or expr[1] in S.filtered_presence_fns):
                    vals = [path_return(h, p) for p in enum_paths(h) if (bb, tt) in zip(p, p[1:])]
                    okv = bool(vals) and all(r[0] == "agg" and r[2] == "Rejected" and mentions(r, lambda s: s[0] == "agg" and s[2] == "KeyAlreadyExists") for r in vals)
                    ctx.check(okv, "R07.5", "%s|present-is-rejected" % name, "a key found present at execution time is answered Rejected(KeyAlreadyExists)", h.where(bb))
    ctx.floor("R07.5", "put handlers on the worker", n_h, 2)

    # ---- R07.4 the existence test must wait for the shard: try_* lookups answer "absent" while a writer holds it
    for m in ("try_get", "try_get_mut"):
        for f, bb, t in S.ops.get(m, []):
            if f.rec.get("ret") == "bool":
                ctx.bad("R07.4", "%s|non-blocking-existence-test" % f.name,
                        "an existence test must use a blocking lookup: DashMap::%s reports Locked (treated as absent) whenever another thread write-locks the shard, so a put of a live key would be admitted and overwrite it" % m,
                        f.where(bb))
    # ---- R07.3 presence agrees with readability -------------------------------------------------------
    for pname in sorted(S.readable_fns):
        ctx.ok("R07.3", "%s|presence-honours-liveness" % pname, "the predicate deciding 'key already exists' is defined through the liveness-filtered lookup", F.fn(pname).where())
    for pname in sorted(set(S.presence_fns) | set(S.filtered_presence_fns)):
        f = F.fn(pname)
        used = any(t.get("rpath") == pname for n, g in F.fns.items() if g.rec.get("reachable") and g.kind != "Closure" for b, t in g.calls())
        if not used:
            continue        # a physical-presence helper that no put API consults is not C07's subject
        ctx.touch(f)
        for g, bb, t in S.lookup_sites:
            if g is not f:
                continue
            ok, form = L.lookup_applies_liveness(f, bb, t)
            if dashmap_call(t)[0] == "contains_key":
                ok, form = False, "contains_key cannot see liveness"
            ctx.check(ok, "R07.3", "%s|presence-honours-liveness" % pname,
                      "the presence predicate deciding 'key already exists' applies is_alive to the entry it finds (a key that reads as absent must not be refused as existing)",
                      f.where(bb), form)


def dashmap_lookup_fn(F, S, fname):
    for g, bb, t in S.lookup_sites:
        if g.name == fname:
            return dashmap_call(t)[0]
    return None
