"""Fact-level inlining of higher-order helpers (A9).

`fn with_x<R>(&self, f: impl FnOnce(&mut X) -> R) -> R { let mut g = self.x.lock(); f(&mut g) }` and its callers
`self.with_x(|x| ..)` are, for every rule in this directory, the same program as the caller taking the lock and running the
closure body itself.  Rules that reason with dominance, guard liveness and stores inside one function would otherwise lose
sight of the critical section.  This pass rewrites the MIR-lite of each such call site before any rule runs:

    caller block:   dest = H(a.., closure{..})            ==>   params of H := a.., closure ; goto H'.entry
    H' (copy of H): .. call_once(param_f, (u..)) ..        ==>   params of C := param_f, u.. ; goto C'.entry
    C' (copy of C): return                                 ==>   result := _0 ; goto back into H'
    H' return                                              ==>   dest := _0 ; goto the caller's continuation

Locals, blocks and promoted constants are renumbered; the per-context instance graph of the caller gets the edges of the
inlined copies (so effect summaries and lock-order analysis see the same calls at the new blocks).  Only small, non-recursive
local functions that call one of their own closure-typed parameters are inlined, and only where the argument is a closure
literal of the caller.  H and C also stay in the fact base as functions of their own.
"""
import copy

CALL_TRAITS = ("std::ops::FnOnce::call_once", "std::ops::Fn::call", "std::ops::FnMut::call_mut")
MAX_BLOCKS = 24


def _shift_place(p, L0):
    q = {"l": p["l"] + L0, "p": []}
    for e in p["p"]:
        if isinstance(e, dict) and "index" in e:
            e = dict(e, index=e["index"] + L0)
        q["p"].append(e)
    return q


def _shift_operand(o, L0, P0):
    if not isinstance(o, dict):
        return o
    o = dict(o)
    if o.get("k") in ("copy", "move") and "place" in o:
        o["place"] = _shift_place(o["place"], L0)
    if "promoted" in o:
        o["promoted"] = o["promoted"] + P0
    return o


def _shift_rvalue(rv, L0, P0):
    rv = dict(rv)
    for k in ("op", "a", "b"):
        if isinstance(rv.get(k), dict):
            rv[k] = _shift_operand(rv[k], L0, P0)
    if "place" in rv and isinstance(rv["place"], dict):
        rv["place"] = _shift_place(rv["place"], L0)
    if "ops" in rv:
        rv["ops"] = [_shift_operand(o, L0, P0) for o in rv["ops"]]
    return rv


def _shift_block(blk, L0, B0, P0):
    nb = {"cleanup": blk.get("cleanup", False), "stmts": [], "term": None}
    for s in blk["stmts"]:
        s = dict(s)
        if "place" in s and isinstance(s["place"], dict):
            s["place"] = _shift_place(s["place"], L0)
        if "rv" in s:
            s["rv"] = _shift_rvalue(s["rv"], L0, P0)
        if "l" in s and isinstance(s["l"], int):
            s["l"] = s["l"] + L0
        nb["stmts"].append(s)
    t = dict(blk["term"])
    for k in ("target", "otherwise", "unwind", "cleanup"):
        if isinstance(t.get(k), int):
            t[k] = t[k] + B0
    if "targets" in t:
        t["targets"] = [[v, b + B0] for v, b in t["targets"]]
    if "args" in t:
        t["args"] = [_shift_operand(a, L0, P0) for a in t["args"]]
    for k in ("discr", "cond"):
        if isinstance(t.get(k), dict):
            t[k] = _shift_operand(t[k], L0, P0)
    for k in ("dest", "place"):
        if isinstance(t.get(k), dict):
            t[k] = _shift_place(t[k], L0)
    nb["term"] = t
    return nb


def splice(grec, bb, crec, arg_ops, spread_tuple):
    """inline the body of crec at the call in block bb of grec; returns (L0, B0) of the copy"""
    gb, cb = grec["body"], crec["body"]
    t = gb["blocks"][bb]["term"]
    dest, target = t["dest"], t.get("target")
    L0, B0 = len(gb["locals"]), len(gb["blocks"])
    gprom = grec.setdefault("promoted", [])
    P0 = len(gprom)
    for pb in crec.get("promoted") or []:
        gprom.append(copy.deepcopy(pb))
    gb["locals"] += copy.deepcopy(cb["locals"])
    line = t.get("line", 0)
    binds = []
    if not spread_tuple:
        for i, a in enumerate(arg_ops[:cb["argc"]]):
            binds.append({"k": "assign", "place": {"l": L0 + 1 + i, "p": []}, "rv": {"k": "use", "op": a}, "line": line})
    else:
        # closure call: args[0] is the closure (or a reference to it), args[1] the tuple of its arguments
        binds.append({"k": "assign", "place": {"l": L0 + 1, "p": []}, "rv": {"k": "use", "op": arg_ops[0]}, "line": line})
        n_args = cb["argc"] - 1
        tup = arg_ops[1] if len(arg_ops) > 1 else None
        for k_ in range(n_args):
            if tup is None or tup.get("k") not in ("copy", "move"):
                return None
            op = {"k": "copy", "place": {"l": tup["place"]["l"], "p": list(tup["place"]["p"]) + [{"f": str(k_), "i": k_}]}}
            binds.append({"k": "assign", "place": {"l": L0 + 2 + k_, "p": []}, "rv": {"k": "use", "op": op}, "line": line})
    for blk in cb["blocks"]:
        nb = _shift_block(blk, L0, B0, P0)
        if nb["term"]["k"] == "return":
            nb["stmts"].append({"k": "assign", "place": dest, "rv": {"k": "use", "op": {"k": "move", "place": {"l": L0, "p": []}}}, "line": line})
            nb["term"] = {"k": "goto", "target": target, "line": line} if target is not None else {"k": "unreachable", "line": line}
        gb["blocks"].append(nb)
    gb["blocks"][bb]["stmts"] = gb["blocks"][bb]["stmts"] + binds
    gb["blocks"][bb]["term"] = {"k": "goto", "target": B0, "line": line, "inlined": crec.get("_name", "")}
    return L0, B0


def closure_param_calls(F, h):
    """[(bb, param index)] calls in h of one of its own closure-typed parameters"""
    out = []
    for b, t in h.calls():
        if t["callee"] in CALL_TRAITS and t["args"]:
            o = h.op_origin(t["args"][0])
            if o[0] == "param" and 1 <= o[1] <= h.argc:
                out.append((b, o[1]))
    return out


def run(F):
    """rewrite F in place; returns the list of (caller, helper, closure) triples inlined"""
    from core import Fn
    done = []
    helpers = {}
    for name, h in F.fns.items():
        if h.kind == "Closure" or len(h.live_blocks()) > MAX_BLOCKS:
            continue
        cpc = closure_param_calls(F, h)
        if len(cpc) == 1 and not any(t.get("rpath") == name for b, t in h.calls()):
            helpers[name] = cpc[0]
    if not helpers:
        return done
    for _round in range(2):
        changed = False
        for gname in list(F.fns):
            g = F.fns[gname]
            if gname in helpers:
                continue
            sites = []
            for b, t in g.calls():
                hn = t.get("rpath")
                if t["res"] != "item" or hn not in helpers or hn == gname:
                    continue
                hb, pidx = helpers[hn]
                if pidx - 1 >= len(t["args"]):
                    continue
                clo = g.op_origin(t["args"][pidx - 1])
                if not (clo[0] == "agg" and clo[1] in F.fns and F.fns[clo[1]].kind == "Closure"):
                    continue
                if len(F.fns[clo[1]].live_blocks()) > 3 * MAX_BLOCKS:
                    continue
                sites.append((b, hn, hb, clo[1]))
            if not sites:
                continue
            grec = F.raw["fns"][gname]
            for b, hn, hb, cn in sites:
                hrec = dict(F.raw["fns"][hn], _name=hn)
                t = grec["body"]["blocks"][b]["term"]
                if t.get("k") != "call":
                    continue
                r = splice(grec, b, hrec, t["args"], False)
                if r is None:
                    continue
                L0, B0 = r
                # instance graph: the helper's edges move into the caller
                for nid in F._by_def.get(gname, []):
                    nd = F.nodes[nid]
                    calls = nd.get("calls") or {}
                    c = calls.pop(str(b), None)
                    if c and c.get("k") == "local":
                        hnode = F.nodes[c["inst"]]
                        for kb, cc in (hnode.get("calls") or {}).items():
                            calls[str(int(kb) + B0)] = copy.deepcopy(cc)
                    nd["calls"] = calls
                # now the closure call inside the copy
                cb_block = B0 + hb
                ct = grec["body"]["blocks"][cb_block]["term"]
                crec = dict(F.raw["fns"][cn], _name=cn)
                r2 = splice(grec, cb_block, crec, ct["args"], True) if ct.get("k") == "call" else None
                if r2 is not None:
                    L1, B1 = r2
                    for nid in F._by_def.get(gname, []):
                        nd = F.nodes[nid]
                        calls = nd.get("calls") or {}
                        c = calls.pop(str(cb_block), None)
                        if c and c.get("k") == "local":
                            cnode = F.nodes[c["inst"]]
                            for kb, cc in (cnode.get("calls") or {}).items():
                                calls[str(int(kb) + B1)] = copy.deepcopy(cc)
                        nd["calls"] = calls
                done.append((gname, hn, cn))
                changed = True
            F.fns[gname] = Fn(F, gname, grec)
        if not changed:
            break
    F._effects = None
    return done


def eligible_helper(F, g):
    """a small, loop-free, closure-free, module-private, non-recursive local function: the typical extracted helper"""
    from core import back_edge_heads
    if g.kind == "Closure" or g.rec.get("impl_trait"):
        return False
    vis = g.rec.get("vis") or ""
    if not (vis.startswith("Restricted") and "DefId(0:0 " not in vis):
        return False
    if len(g.live_blocks()) > MAX_BLOCKS or back_edge_heads(g) or F.closures_of(g):
        return False
    if any(t.get("rpath") == g.name for b, t in g.calls()):
        return False
    return True


def expand(F, f, keep, depth=2):
    """a copy of f (not registered in F) in which calls to eligible helpers that are not `keep`-listed are spliced in:
    for rules that reason with dominance inside one function and must not care whether a step of that function was
    extracted into a private helper.  The copy keeps f's name (callers, self type) but has no instance-graph edges for
    the spliced blocks."""
    from core import Fn
    cache = F.__dict__.setdefault("_expanded", {})
    key = (f.name, id(keep))
    grec = None
    cur = f
    for _ in range(depth):
        sites = []
        for b, t in cur.calls():
            hn = t.get("rpath")
            if t["res"] != "item" or hn not in F.fns or hn == f.name or keep(hn):
                continue
            if eligible_helper(F, F.fns[hn]):
                sites.append((b, hn))
        if not sites:
            break
        if grec is None:
            grec = copy.deepcopy(F.raw["fns"][f.name])
        for b, hn in sites:
            t = grec["body"]["blocks"][b]["term"]
            if t.get("k") == "call":
                splice(grec, b, dict(F.raw["fns"][hn], _name=hn), t["args"], False)
        cur = Fn(F, f.name, grec)
    return cur


def merge_private_helpers(F):
    """A9b: an extracted private helper is part of the one function that calls it.  Every eligible helper (small,
    loop-free, closure-free, module-private, non-recursive, no trait impl) whose only caller is one named function is
    spliced into that caller; the helper itself is then no longer a function of its own for the rules (it stays in
    `F.merged`).  Helpers called from closures, from several functions or through indirect calls are left alone."""
    from core import Fn
    F.merged = {}
    for _round in range(3):
        changed = False
        callers = {}
        sites = {}
        for g in F.fns.values():
            for b, t in g.calls():
                hn = t.get("rpath")
                if hn in F.fns and t["res"] == "item":
                    callers.setdefault(hn, set()).add(g.name)
                    sites.setdefault((g.name, hn), []).append(b)
                elif hn in F.fns:
                    callers.setdefault(hn, set()).add("<indirect>")
            # a function mentioned as a value (passed by path) is not merged
            for b in g.live_blocks():
                for st in g.blocks[b]["stmts"]:
                    if st["k"] == "assign":
                        for o in ([st["rv"].get("op")] + list(st["rv"].get("ops") or [])):
                            if isinstance(o, dict) and o.get("fn") in F.fns:
                                callers.setdefault(o["fn"], set()).add("<value>")
                t = g.term(b)
                if t["k"] == "call":
                    for o in t["args"]:
                        if isinstance(o, dict) and o.get("fn") in F.fns:
                            callers.setdefault(o["fn"], set()).add("<value>")
        for hn in sorted(callers):
            cs = callers[hn]
            if len(cs) != 1 or hn not in F.fns:
                continue
            gn = next(iter(cs))
            if gn not in F.fns or gn == hn:
                continue
            g, h = F.fns[gn], F.fns[hn]
            if g.kind == "Closure" or not eligible_helper(F, h):
                continue
            if (h.rec.get("ret") or "").endswith("command::CommandStatus"):
                continue        # a function that decides a command's status is a unit of its own (a handler, an admission step)
            if len(g.live_blocks()) + len(h.live_blocks()) * len(sites[(gn, hn)]) > 160:
                continue
            if any(b in g.reach_after(b) for b in sites[(gn, hn)]):
                continue        # called from inside a loop: the per-element function of that loop stays a unit
            grec = F.raw["fns"][gn]
            ok = True
            for b in sites[(gn, hn)]:
                t = grec["body"]["blocks"][b]["term"]
                if t.get("k") != "call":
                    continue
                r = splice(grec, b, dict(F.raw["fns"][hn], _name=hn), t["args"], False)
                if r is None:
                    ok = False
                    continue
                L0, B0 = r
                for nid in F._by_def.get(gn, []):
                    nd = F.nodes[nid]
                    calls = nd.get("calls") or {}
                    c = calls.pop(str(b), None)
                    if c and c.get("k") == "local":
                        hnode = F.nodes[c["inst"]]
                        for kb, cc in (hnode.get("calls") or {}).items():
                            calls[str(int(kb) + B0)] = copy.deepcopy(cc)
                    nd["calls"] = calls
            if ok:
                F.fns[gn] = Fn(F, gn, grec)
                F.merged[hn] = gn
                del F.fns[hn]
                changed = True
        if not changed:
            break
    F._effects = None
    return F.merged


# ---------------------------------------------------------------------------------------------------------------------
# A10: std combinators applied to an effectful closure literal are control flow.
#
#     x.map(|p| { effect(p); v })          ==>   match x { Some(p) => { effect(p); Some(v) }  None => None }
#     x.into_iter().for_each(|p| effect)   ==>   if let Some(p) = x { effect }
#     c.then(|| effect)                    ==>   if c { Some(effect) } else { None }
#
# The rewrite is done on the MIR-lite of the function that creates the closure, before any rule runs: a switch on the
# scrutinee's discriminant, the closure body spliced into the arm that would call it (its parameter bound to the payload),
# and the combinator's result rebuilt in each arm.  Only closures that *do* something (write through a reference, take a
# lock, bump a counter, call something that does) are rewritten: a pure projection such as `.filter(|v| v.is_alive(c))`
# stays the expression the rules read it as.  A closure whose only use was rewritten is no longer a function of its own.

OPT, RES = "std::option::Option::<T>::", "std::result::Result::<T, E>::"
# variant arm -> ("call", closure argument index, how the payload is passed, what the combinator yields) | ("value", what)
COMBINATORS = {
    OPT + "map": ("option", {"Some": ("call", 1, "val", "some_r"), "None": ("value", "none")}),
    OPT + "and_then": ("option", {"Some": ("call", 1, "val", "r"), "None": ("value", "none")}),
    OPT + "inspect": ("option", {"Some": ("call", 1, "ref", "scrut"), "None": ("value", "none")}),
    OPT + "map_or": ("option", {"Some": ("call", 2, "val", "r"), "None": ("value", "arg:1")}),
    OPT + "map_or_else": ("option", {"Some": ("call", 2, "val", "r"), "None": ("call", 1, "noarg", "r")}),
    OPT + "unwrap_or_else": ("option", {"Some": ("value", "payload"), "None": ("call", 1, "noarg", "r")}),
    OPT + "or_else": ("option", {"Some": ("value", "scrut"), "None": ("call", 1, "noarg", "r")}),
    OPT + "is_some_and": ("option", {"Some": ("call", 1, "val", "r"), "None": ("value", "false")}),
    OPT + "is_none_or": ("option", {"Some": ("call", 1, "val", "r"), "None": ("value", "true")}),
    OPT + "filter": ("option", {"Some": ("call", 1, "ref", "filter"), "None": ("value", "none")}),
    OPT + "ok_or_else": ("option", {"Some": ("value", "ok_payload"), "None": ("call", 1, "noarg", "err_r")}),
    RES + "map": ("result", {"Ok": ("call", 1, "val", "ok_r"), "Err": ("value", "err_payload")}),
    RES + "map_err": ("result", {"Ok": ("value", "ok_payload"), "Err": ("call", 1, "val", "err_r")}),
    RES + "and_then": ("result", {"Ok": ("call", 1, "val", "r"), "Err": ("value", "err_payload")}),
    RES + "or_else": ("result", {"Ok": ("value", "ok_payload"), "Err": ("call", 1, "val", "r")}),
    RES + "unwrap_or_else": ("result", {"Ok": ("value", "payload"), "Err": ("call", 1, "val", "r")}),
    RES + "is_ok_and": ("result", {"Ok": ("call", 1, "val", "r"), "Err": ("value", "false")}),
    RES + "inspect": ("result", {"Ok": ("call", 1, "ref", "scrut"), "Err": ("value", "scrut")}),
    RES + "inspect_err": ("result", {"Ok": ("value", "scrut"), "Err": ("call", 1, "ref", "scrut")}),
    "std::iter::Iterator::for_each": ("optiter", {"Some": ("call", 1, "val", "unit"), "None": ("value", "unit")}),
    "bool::then": ("bool", {"true": ("call", 1, "noarg", "some_r"), "false": ("value", "none")}),
}
VARIANTS = {"option": [[0, "None"], [1, "Some"]], "optiter": [[0, "None"], [1, "Some"]], "result": [[0, "Ok"], [1, "Err"]]}
OPT_INTO_ITER = "<std::option::Option<T> as std::iter::IntoIterator>::into_iter"


def _combinator_of(t):
    m = t.get("rpath") or t.get("callee") or ""
    if m in COMBINATORS:
        return m
    if m in ("core::bool::<impl bool>::then", "std::primitive::bool::then") or m.endswith("bool>::then"):
        return "bool::then"
    return None


def _closure_effectful(F, c, seen=None):
    from core import site_effects, is_effectful
    seen = seen or set()
    if c.name in seen:
        return False
    seen.add(c.name)
    if c.stores():
        return True
    for b, t in c.calls():
        if is_effectful(site_effects(F, c, b)):
            return True
        # something is handed out mutably (`set.remove(&k)`, `heap.push(x)`): a state change the rules may be about
        for a in t["args"]:
            if a.get("k") in ("copy", "move") and not a["place"]["p"] and c.locals[a["place"]["l"]]["ty"].startswith("&mut "):
                return True
    return any(_closure_effectful(F, d, seen) for d in F.closures_of(c))


def _inner(ty, head):
    """T of `head<T>` / (T, E) of `Result<T, E>` as strings (top-level comma split)"""
    if not ty.startswith(head + "<") or not ty.endswith(">"):
        return None
    body = ty[len(head) + 1:-1]
    parts, depth, cur = [], 0, ""
    for ch in body:
        if ch in "<([":
            depth += 1
        elif ch in ">)]":
            depth -= 1
        if ch == "," and depth == 0:
            parts.append(cur.strip())
            cur = ""
        else:
            cur += ch
    parts.append(cur.strip())
    return parts


def desugar_site(F, g, grec, b):
    """rewrite the combinator call in block b of grec; returns the list of closure names spliced, or None"""
    gb = grec["body"]
    t = gb["blocks"][b]["term"]
    if t.get("k") != "call" or t.get("target") is None:
        return None
    name = _combinator_of(t)
    if name is None:
        return None
    kind, arms = COMBINATORS[name]
    args = t["args"]
    line = t.get("line", 0)
    # the closure literals
    clos = {}
    for arm, act in arms.items():
        if act[0] == "call":
            if act[1] >= len(args):
                return None
            o = g.op_origin(args[act[1]])
            if not (o[0] == "agg" and o[1] in F.fns and F.fns[o[1]].kind == "Closure"):
                return None
            c = F.fns[o[1]]
            if len(c.live_blocks()) > 3 * MAX_BLOCKS or any(t2.get("rpath") == c.name for b2, t2 in c.calls()):
                return None
            clos[arm] = c
    if not clos or not any(_closure_effectful(F, c) for c in clos.values()):
        return None
    if args[0].get("k") not in ("copy", "move"):
        return None
    xplace = args[0]["place"]
    if kind == "optiter":
        # x.into_iter().for_each(f): the scrutinee is the option handed to into_iter
        src = None
        for b2, blk in enumerate(gb["blocks"]):
            t2 = blk["term"]
            if t2.get("k") == "call" and t2.get("dest") == {"l": xplace["l"], "p": []} and (t2.get("rpath") or "") == OPT_INTO_ITER and xplace["p"] == []:
                src = t2
        if src is None or src["args"][0].get("k") not in ("copy", "move"):
            return None
        xplace = src["args"][0]["place"]
    xty = gb["locals"][xplace["l"]]["ty"] if not xplace["p"] else None
    locals_ = gb["locals"]

    def new_local(ty):
        locals_.append({"ty": ty})
        return len(locals_) - 1

    def new_block(stmts, term):
        gb["blocks"].append({"cleanup": False, "stmts": stmts, "term": term})
        return len(gb["blocks"]) - 1

    def assign(place, rv):
        return {"k": "assign", "place": place, "rv": rv, "line": line}

    def use(op):
        return {"k": "use", "op": op}

    def mv(place):
        return {"k": "move", "place": place}

    def adt(head, variant, ops):
        return {"k": "agg", "agg": "adt", "adt": head, "variant": variant, "names": [str(i) for i in range(len(ops))], "ops": ops}

    dest, target = t["dest"], t["target"]
    if kind == "bool":
        variants = None
        pty = {}
    else:
        variants = VARIANTS[kind]
        head = "std::result::Result" if kind == "result" else "std::option::Option"
        inner = _inner(xty or "", head) or []
        pty = {"Some": inner[0] if inner else "?", "Ok": inner[0] if inner else "?", "Err": inner[1] if len(inner) > 1 else "?"}

    def payload(arm):
        return {"l": xplace["l"], "p": list(xplace["p"]) + [{"dc": arm}, {"f": "0", "i": 0}]}

    spliced = []
    arm_entry = {}
    pending = []          # (block, closure Fn) closure calls to splice once all blocks exist
    for arm, act in arms.items():
        if act[0] == "value":
            res = act[1]
            stmts = _value_stmts(res, dest, xplace, payload, arm, args, assign, use, mv, adt, None)
            if stmts is None:
                return None
            arm_entry[arm] = new_block(stmts, {"k": "goto", "target": target, "line": line})
            continue
        _, ci, argmode, res = act
        c = clos[arm]
        crec = F.raw["fns"][c.name]
        r = new_local(crec["body"]["locals"][0]["ty"])
        stmts = []
        call_args = [args[ci]]
        if argmode in ("val", "ref"):
            tup = new_local("(%s,)" % pty.get(arm, "?"))
            if argmode == "val":
                stmts.append(assign({"l": tup, "p": []}, {"k": "agg", "agg": "tuple", "names": ["0"], "ops": [mv(payload(arm))]}))
            else:
                q = new_local("&" + pty.get(arm, "?"))
                stmts.append(assign({"l": q, "p": []}, {"k": "ref", "mut": False, "place": payload(arm)}))
                stmts.append(assign({"l": tup, "p": []}, {"k": "agg", "agg": "tuple", "names": ["0"], "ops": [mv({"l": q, "p": []})]}))
            call_args.append(mv({"l": tup, "p": []}))
        # continuation: rebuild the combinator's result
        if res == "filter":
            keep = new_block([assign(dest, use(mv(xplace)))], {"k": "goto", "target": target, "line": line})
            drop = new_block([assign(dest, adt("std::option::Option", "None", []))], {"k": "goto", "target": target, "line": line})
            cont = new_block([], {"k": "switch", "discr": mv({"l": r, "p": []}), "targets": [[0, drop]], "otherwise": keep, "dty": "bool", "line": line})
        else:
            cs = _value_stmts(res, dest, xplace, payload, arm, args, assign, use, mv, adt, r)
            if cs is None:
                return None
            cont = new_block(cs, {"k": "goto", "target": target, "line": line})
        cb = new_block(stmts, {"k": "call", "line": line, "fn_line": t.get("fn_line", line), "args": call_args, "dest": {"l": r, "p": []}, "target": cont,
                               "callee": "std::ops::FnOnce::call_once", "gargs": [], "callee_local": False, "res": "unresolved", "rpath": None, "rlocal": False})
        arm_entry[arm] = cb
        pending.append((cb, c))
    # the dispatch
    blk = gb["blocks"][b]
    if kind == "bool":
        blk["term"] = {"k": "switch", "discr": args[0], "targets": [[0, arm_entry["false"]]], "otherwise": arm_entry["true"], "dty": "bool", "line": line}
    else:
        d = new_local("isize")
        dead = new_block([], {"k": "unreachable", "line": line})
        blk["stmts"] = blk["stmts"] + [assign({"l": d, "p": []}, {"k": "discr", "place": xplace, "ety": xty or "", "variants": variants})]
        blk["term"] = {"k": "switch", "discr": mv({"l": d, "p": []}), "targets": [[v, arm_entry[n]] for v, n in variants], "otherwise": dead, "dty": "isize", "line": line}
    # instance graph: the combinator's callback edges become the spliced bodies' edges
    cb_insts = {}
    for nid in F._by_def.get(g.name, []):
        nd = F.nodes[nid]
        calls = nd.get("calls") or {}
        c0 = calls.pop(str(b), None)
        cb_insts[nid] = list((c0 or {}).get("cbs") or [])
        nd["calls"] = calls
    for cb, c in pending:
        crec = dict(F.raw["fns"][c.name], _name=c.name)
        r2 = splice(grec, cb, crec, gb["blocks"][cb]["term"]["args"], True)
        if r2 is None:
            return None
        L1, B1 = r2
        for nid in F._by_def.get(g.name, []):
            nd = F.nodes[nid]
            calls = nd.get("calls") or {}
            for inst in cb_insts.get(nid, []):
                if F.nodes[inst]["def"] == c.name:
                    for kb, cc in (F.nodes[inst].get("calls") or {}).items():
                        calls[str(int(kb) + B1)] = copy.deepcopy(cc)
            nd["calls"] = calls
        spliced.append(c.name)
    return spliced


def _value_stmts(res, dest, xplace, payload, arm, args, assign, use, mv, adt, r):
    rop = mv({"l": r, "p": []}) if r is not None else None
    if res == "none":
        return [assign(dest, adt("std::option::Option", "None", []))]
    if res == "some_r":
        return [assign(dest, adt("std::option::Option", "Some", [rop]))]
    if res == "ok_r":
        return [assign(dest, adt("std::result::Result", "Ok", [rop]))]
    if res == "err_r":
        return [assign(dest, adt("std::result::Result", "Err", [rop]))]
    if res == "r":
        return [assign(dest, use(rop))]
    if res == "scrut":
        return [assign(dest, use(mv(xplace)))]
    if res == "unit":
        return [assign(dest, use({"k": "const", "ty": "()", "repr": "()"}))]
    if res == "payload":
        return [assign(dest, use(mv(payload(arm))))]
    if res in ("false", "true"):
        return [assign(dest, use({"k": "const", "ty": "bool", "v": 1 if res == "true" else 0}))]
    if res.startswith("arg:"):
        return [assign(dest, use(args[int(res[4:])]))]
    if res == "ok_payload":
        return [assign(dest, adt("std::result::Result", "Ok", [mv(payload(arm))]))]
    if res == "err_payload":
        return [assign(dest, adt("std::result::Result", "Err", [mv(payload(arm))]))]
    return None


def desugar_combinators(F):
    """A10 driver: innermost closures first, so that a combinator inside a closure body is control flow before that
    closure is itself spliced into its parent"""
    from core import Fn
    F.desugared = {}
    for _round in range(4):
        changed = False
        order = sorted(F.fns, key=lambda n: (-n.count("{closure#"), n))
        for gname in order:
            g = F.fns.get(gname)
            if g is None:
                continue
            grec = F.raw["fns"][gname]
            n0 = len(grec["body"]["blocks"])
            did = []
            for b in sorted(g.live_blocks()):
                if b >= n0:
                    continue
                t = grec["body"]["blocks"][b]["term"]
                if t.get("k") == "call" and _combinator_of(t):
                    backup = copy.deepcopy(grec)
                    nodes_backup = {nid: copy.deepcopy(F.nodes[nid].get("calls")) for nid in F._by_def.get(gname, [])}
                    r = desugar_site(F, g, grec, b)
                    if r is None:
                        grec.clear()
                        grec.update(backup)
                        for nid, cs in nodes_backup.items():
                            F.nodes[nid]["calls"] = cs
                    else:
                        did += r
                        g = Fn(F, gname, grec)
                        F.fns[gname] = g
            if did:
                changed = True
                for cn in did:
                    F.desugared[cn] = gname
        # a closure whose creation site was rewritten is part of its parent now
        for cn in list(F.desugared):
            if cn in F.fns:
                still = False
                for g in F.fns.values():
                    if g.name == cn:
                        continue
                    for b2, t2 in g.calls():
                        for a in t2["args"]:
                            o = g.op_origin(a)
                            if o[0] == "agg" and o[1] == cn and not (t2.get("callee") == "std::ops::FnOnce::call_once" and t2.get("res") == "unresolved"):
                                still = True
                if not still:
                    for d in list(F.fns):
                        if d == cn or d.startswith(cn + "::{closure"):
                            del F.fns[d]
        F._effects = None
        if not changed:
            break
    return F.desugared


def resolve_into(F):
    """`x.into()` through std's blanket `impl<T, U: From<T>> Into<U> for T` is a call of this crate's `U::from(x)` when the
    crate implements that conversion: the call record is rewritten to name it (so it is inlined / summarised as code)"""
    from core import Fn
    n = 0
    for gname, grec in F.raw["fns"].items():
        touched = False
        for b, blk in enumerate(grec["body"]["blocks"]):
            t = blk["term"]
            if t.get("k") == "call" and t.get("callee") == "std::convert::Into::into" and len(t.get("gargs") or []) == 2 and not t.get("rlocal"):
                tgt = "<%s as std::convert::From<%s>>::from" % (t["gargs"][1], t["gargs"][0])
                if tgt not in F.raw["fns"]:
                    # (an impl for a foreign / primitive target type is named after the module it is written in)
                    suffix = "<impl std::convert::From<%s> for %s>::from" % (t["gargs"][0], t["gargs"][1])
                    alt = [n_ for n_ in F.raw["fns"] if n_.endswith(suffix)]
                    tgt = alt[0] if len(alt) == 1 else tgt
                if tgt in F.raw["fns"]:
                    t["callee"], t["rpath"], t["rlocal"], t["callee_local"], t["res"] = "std::convert::From::from", tgt, True, True, "item"
                    t["gargs"] = [t["gargs"][1], t["gargs"][0]]
                    insts = F._by_def.get(tgt, [])
                    if len(insts) == 1:
                        for nid in F._by_def.get(gname, []):
                            calls = F.nodes[nid].get("calls") or {}
                            calls[str(b)] = {"k": "local", "inst": insts[0], "callee": tgt}
                            F.nodes[nid]["calls"] = calls
                    touched = True
                    n += 1
        if touched and gname in F.fns:
            F.fns[gname] = Fn(F, gname, grec)
    return n
