"""Fact-level inlining of higher-order helpers (A9).

`fn with_x<R>(&self, f: impl FnOnce(&mut X) -> R) -> R { let mut g = self.x.lock(); f(&mut g) }` and its callers
`self.with_x(|x| ..)` are, for every rule in this directory, the same program as the caller taking the lock and running the
closure body itself.  Rules that reason with dominance, guard liveness and stores inside one function would otherwise lose
sight of the critical section.  This pass rewrites the MIR-lite of each such call site before any rule runs:

    caller block:   dest = H(a.., closure{..})            ==>   params of H := a.., closure ; goto H'.entry
    H' (copy of H): .. call_once(param_f, (u..)) ..        ==>   params of C := param_f, u.. ; goto C'.entry
    C' (copy of C): return                                 ==>   result := _0 ; goto back into H'
    H' return                                              ==>   dest := _0 ; goto the caller's continuation

Locals, blocks and promoted constants are renumbered; the per-context instance graph of the caller gets the edges of the
inlined copies (so effect summaries and lock-order analysis see the same calls at the new blocks).  Only small, non-recursive
local functions that call one of their own closure-typed parameters are inlined, and only where the argument is a closure
literal of the caller.  H and C also stay in the fact base as functions of their own.
"""
import copy

CALL_TRAITS = ("std::ops::FnOnce::call_once", "std::ops::Fn::call", "std::ops::FnMut::call_mut")
MAX_BLOCKS = 24


def _shift_place(p, L0):
    q = {"l": p["l"] + L0, "p": []}
    for e in p["p"]:
        if isinstance(e, dict) and "index" in e:
            e = dict(e, index=e["index"] + L0)
        q["p"].append(e)
    return q


def _shift_operand(o, L0, P0):
    if not isinstance(o, dict):
        return o
    o = dict(o)
    if o.get("k") in ("copy", "move") and "place" in o:
        o["place"] = _shift_place(o["place"], L0)
    if "promoted" in o:
        o["promoted"] = o["promoted"] + P0
    return o


def _shift_rvalue(rv, L0, P0):
    rv = dict(rv)
    for k in ("op", "a", "b"):
        if isinstance(rv.get(k), dict):
            rv[k] = _shift_operand(rv[k], L0, P0)
    if "place" in rv and isinstance(rv["place"], dict):
        rv["place"] = _shift_place(rv["place"], L0)
    if "ops" in rv:
        rv["ops"] = [_shift_operand(o, L0, P0) for o in rv["ops"]]
    return rv


def _shift_block(blk, L0, B0, P0):
    nb = {"cleanup": blk.get("cleanup", False), "stmts": [], "term": None}
    for s in blk["stmts"]:
        s = dict(s)
        if "place" in s and isinstance(s["place"], dict):
            s["place"] = _shift_place(s["place"], L0)
        if "rv" in s:
            s["rv"] = _shift_rvalue(s["rv"], L0, P0)
        if "l" in s and isinstance(s["l"], int):
            s["l"] = s["l"] + L0
        nb["stmts"].append(s)
    t = dict(blk["term"])
    for k in ("target", "otherwise", "unwind", "cleanup"):
        if isinstance(t.get(k), int):
            t[k] = t[k] + B0
    if "targets" in t:
        t["targets"] = [[v, b + B0] for v, b in t["targets"]]
    if "args" in t:
        t["args"] = [_shift_operand(a, L0, P0) for a in t["args"]]
    for k in ("discr", "cond"):
        if isinstance(t.get(k), dict):
            t[k] = _shift_operand(t[k], L0, P0)
    for k in ("dest", "place"):
        if isinstance(t.get(k), dict):
            t[k] = _shift_place(t[k], L0)
    nb["term"] = t
    return nb


def splice(grec, bb, crec, arg_ops, spread_tuple):
    """inline the body of crec at the call in block bb of grec; returns (L0, B0) of the copy"""
    gb, cb = grec["body"], crec["body"]
    t = gb["blocks"][bb]["term"]
    dest, target = t["dest"], t.get("target")
    L0, B0 = len(gb["locals"]), len(gb["blocks"])
    gprom = grec.setdefault("promoted", [])
    P0 = len(gprom)
    for pb in crec.get("promoted") or []:
        gprom.append(copy.deepcopy(pb))
    gb["locals"] += copy.deepcopy(cb["locals"])
    line = t.get("line", 0)
    binds = []
    if not spread_tuple:
        for i, a in enumerate(arg_ops[:cb["argc"]]):
            binds.append({"k": "assign", "place": {"l": L0 + 1 + i, "p": []}, "rv": {"k": "use", "op": a}, "line": line})
    else:
        # closure call: args[0] is the closure (or a reference to it), args[1] the tuple of its arguments
        binds.append({"k": "assign", "place": {"l": L0 + 1, "p": []}, "rv": {"k": "use", "op": arg_ops[0]}, "line": line})
        n_args = cb["argc"] - 1
        tup = arg_ops[1] if len(arg_ops) > 1 else None
        for k_ in range(n_args):
            if tup is None or tup.get("k") not in ("copy", "move"):
                return None
            op = {"k": "copy", "place": {"l": tup["place"]["l"], "p": list(tup["place"]["p"]) + [{"f": str(k_), "i": k_}]}}
            binds.append({"k": "assign", "place": {"l": L0 + 2 + k_, "p": []}, "rv": {"k": "use", "op": op}, "line": line})
    for blk in cb["blocks"]:
        nb = _shift_block(blk, L0, B0, P0)
        if nb["term"]["k"] == "return":
            nb["stmts"].append({"k": "assign", "place": dest, "rv": {"k": "use", "op": {"k": "move", "place": {"l": L0, "p": []}}}, "line": line})
            nb["term"] = {"k": "goto", "target": target, "line": line} if target is not None else {"k": "unreachable", "line": line}
        gb["blocks"].append(nb)
    gb["blocks"][bb]["stmts"] = gb["blocks"][bb]["stmts"] + binds
    gb["blocks"][bb]["term"] = {"k": "goto", "target": B0, "line": line, "inlined": crec.get("_name", "")}
    return L0, B0


def closure_param_calls(F, h):
    """[(bb, param index)] calls in h of one of its own closure-typed parameters"""
    out = []
    for b, t in h.calls():
        if t["callee"] in CALL_TRAITS and t["args"]:
            o = h.op_origin(t["args"][0])
            if o[0] == "param" and 1 <= o[1] <= h.argc:
                out.append((b, o[1]))
    return out


def run(F):
    """rewrite F in place; returns the list of (caller, helper, closure) triples inlined"""
    from core import Fn
    done = []
    helpers = {}
    for name, h in F.fns.items():
        if h.kind == "Closure" or len(h.live_blocks()) > MAX_BLOCKS:
            continue
        cpc = closure_param_calls(F, h)
        if len(cpc) == 1 and not any(t.get("rpath") == name for b, t in h.calls()):
            helpers[name] = cpc[0]
    if not helpers:
        return done
    for _round in range(2):
        changed = False
        for gname in list(F.fns):
            g = F.fns[gname]
            if gname in helpers:
                continue
            sites = []
            for b, t in g.calls():
                hn = t.get("rpath")
                if t["res"] != "item" or hn not in helpers or hn == gname:
                    continue
                hb, pidx = helpers[hn]
                if pidx - 1 >= len(t["args"]):
                    continue
                clo = g.op_origin(t["args"][pidx - 1])
                if not (clo[0] == "agg" and clo[1] in F.fns and F.fns[clo[1]].kind == "Closure"):
                    continue
                if len(F.fns[clo[1]].live_blocks()) > 3 * MAX_BLOCKS:
                    continue
                sites.append((b, hn, hb, clo[1]))
            if not sites:
                continue
            grec = F.raw["fns"][gname]
            for b, hn, hb, cn in sites:
                hrec = dict(F.raw["fns"][hn], _name=hn)
                t = grec["body"]["blocks"][b]["term"]
                if t.get("k") != "call":
                    continue
                r = splice(grec, b, hrec, t["args"], False)
                if r is None:
                    continue
                L0, B0 = r
                # instance graph: the helper's edges move into the caller
                for nid in F._by_def.get(gname, []):
                    nd = F.nodes[nid]
                    calls = nd.get("calls") or {}
                    c = calls.pop(str(b), None)
                    if c and c.get("k") == "local":
                        hnode = F.nodes[c["inst"]]
                        for kb, cc in (hnode.get("calls") or {}).items():
                            calls[str(int(kb) + B0)] = copy.deepcopy(cc)
                    nd["calls"] = calls
                # now the closure call inside the copy
                cb_block = B0 + hb
                ct = grec["body"]["blocks"][cb_block]["term"]
                crec = dict(F.raw["fns"][cn], _name=cn)
                r2 = splice(grec, cb_block, crec, ct["args"], True) if ct.get("k") == "call" else None
                if r2 is not None:
                    L1, B1 = r2
                    for nid in F._by_def.get(gname, []):
                        nd = F.nodes[nid]
                        calls = nd.get("calls") or {}
                        c = calls.pop(str(cb_block), None)
                        if c and c.get("k") == "local":
                            cnode = F.nodes[c["inst"]]
                            for kb, cc in (cnode.get("calls") or {}).items():
                                calls[str(int(kb) + B1)] = copy.deepcopy(cc)
                        nd["calls"] = calls
                done.append((gname, hn, cn))
                changed = True
            F.fns[gname] = Fn(F, gname, grec)
        if not changed:
            break
    F._effects = None
    return done


def eligible_helper(F, g):
    """a small, loop-free, closure-free, module-private, non-recursive local function: the typical extracted helper"""
    from core import back_edge_heads
    if g.kind == "Closure" or g.rec.get("impl_trait"):
        return False
    vis = g.rec.get("vis") or ""
    if not (vis.startswith("Restricted") and "DefId(0:0 " not in vis):
        return False
    if len(g.live_blocks()) > MAX_BLOCKS or back_edge_heads(g) or F.closures_of(g):
        return False
    if any(t.get("rpath") == g.name for b, t in g.calls()):
        return False
    return True


def expand(F, f, keep, depth=2):
    """a copy of f (not registered in F) in which calls to eligible helpers that are not `keep`-listed are spliced in:
    for rules that reason with dominance inside one function and must not care whether a step of that function was
    extracted into a private helper.  The copy keeps f's name (callers, self type) but has no instance-graph edges for
    the spliced blocks."""
    from core import Fn
    cache = F.__dict__.setdefault("_expanded", {})
    key = (f.name, id(keep))
    grec = None
    cur = f
    for _ in range(depth):
        sites = []
        for b, t in cur.calls():
            hn = t.get("rpath")
            if t["res"] != "item" or hn not in F.fns or hn == f.name or keep(hn):
                continue
            if eligible_helper(F, F.fns[hn]):
                sites.append((b, hn))
        if not sites:
            break
        if grec is None:
            grec = copy.deepcopy(F.raw["fns"][f.name])
        for b, hn in sites:
            t = grec["body"]["blocks"][b]["term"]
            if t.get("k") == "call":
                splice(grec, b, dict(F.raw["fns"][hn], _name=hn), t["args"], False)
        cur = Fn(F, f.name, grec)
    return cur


def merge_private_helpers(F):
    """A9b: an extracted private helper is part of the one function that calls it.  Every eligible helper (small,
    loop-free, closure-free, module-private, non-recursive, no trait impl) whose only caller is one named function is
    spliced into that caller; the helper itself is then no longer a function of its own for the rules (it stays in
    `F.merged`).  Helpers called from closures, from several functions or through indirect calls are left alone."""
    from core import Fn
    F.merged = {}
    for _round in range(3):
        changed = False
        callers = {}
        sites = {}
        for g in F.fns.values():
            for b, t in g.calls():
                hn = t.get("rpath")
                if hn in F.fns and t["res"] == "item":
                    callers.setdefault(hn, set()).add(g.name)
                    sites.setdefault((g.name, hn), []).append(b)
                elif hn in F.fns:
                    callers.setdefault(hn, set()).add("<indirect>")
            # a function mentioned as a value (passed by path) is not merged
            for b in g.live_blocks():
                for st in g.blocks[b]["stmts"]:
                    if st["k"] == "assign":
                        for o in ([st["rv"].get("op")] + list(st["rv"].get("ops") or [])):
                            if isinstance(o, dict) and o.get("fn") in F.fns:
                                callers.setdefault(o["fn"], set()).add("<value>")
                t = g.term(b)
                if t["k"] == "call":
                    for o in t["args"]:
                        if isinstance(o, dict) and o.get("fn") in F.fns:
                            callers.setdefault(o["fn"], set()).add("<value>")
        for hn in sorted(callers):
            cs = callers[hn]
            if len(cs) != 1 or hn not in F.fns:
                continue
            gn = next(iter(cs))
            if gn not in F.fns or gn == hn:
                continue
            g, h = F.fns[gn], F.fns[hn]
            if g.kind == "Closure" or not eligible_helper(F, h):
                continue
            if (h.rec.get("ret") or "").endswith("command::CommandStatus"):
                continue        # a function that decides a command's status is a unit of its own (a handler, an admission step)
            if len(g.live_blocks()) + len(h.live_blocks()) * len(sites[(gn, hn)]) > 160:
                continue
            if any(b in g.reach_after(b) for b in sites[(gn, hn)]):
                continue        # called from inside a loop: the per-element function of that loop stays a unit
            grec = F.raw["fns"][gn]
            ok = True
            for b in sites[(gn, hn)]:
                t = grec["body"]["blocks"][b]["term"]
                if t.get("k") != "call":
                    continue
                r = splice(grec, b, dict(F.raw["fns"][hn], _name=hn), t["args"], False)
                if r is None:
                    ok = False
                    continue
                L0, B0 = r
                for nid in F._by_def.get(gn, []):
                    nd = F.nodes[nid]
                    calls = nd.get("calls") or {}
                    c = calls.pop(str(b), None)
                    if c and c.get("k") == "local":
                        hnode = F.nodes[c["inst"]]
                        for kb, cc in (hnode.get("calls") or {}).items():
                            calls[str(int(kb) + B0)] = copy.deepcopy(cc)
                    nd["calls"] = calls
            if ok:
                F.fns[gn] = Fn(F, gn, grec)
                F.merged[hn] = gn
                del F.fns[hn]
                changed = True
        if not changed:
            break
    F._effects = None
    return F.merged
