"""C10 — the sweeper removes exactly the expired keys and reclaims their weight (safety clauses).  (DESIGN §4 C10)"""
from sym import ipaths
from core import (strip_site, same_value, root_calls, fmt, is_call_to, enum_paths, path_atoms, path_calls, bool_branch,
                  closure_captures, mentions, subexprs, dashmap_call, variant_edges)
from tickermodel import TickerModel
from storemodel import StoreModel
from weight import WeightModel
import c09

LEVEL = "other"
EXPLANATION = ("Safety half of C10 by structure: every expiry-index operation is done on the shard of the expiry it "
               "is keyed under; the sweep visits the shard of `now`, keeps an entry iff now <= expiry and calls the "
               "evict hook iff not kept, with that entry's id; every site that stores a Some(expiry) registers "
               "(id, that expiry) and every removal unregisters with the expiry read from the entry; weight release "
               "is guarded by the id still being in the weight map, so stale index entries are inert; the sweeper's "
               "hook reaches weight release and store removal. The liveness half ('eventually removed') depends on "
               "tick/shard arithmetic and is not decided.")
ASSUMPTIONS = ["ids are unique per incarnation (fetch_add generator)", "hashbrown::HashMap::retain calls the closure once per entry"]


def retain_table(F, c):
    """rows (now <= expiry, kept, hooks called) of a sweep predicate closure(env, id, expiry), one per outcome of each
    symbolic path; the rows contradicting `keep <=> now <= expiry, hook(id) exactly once iff not kept`; the name of
    the captured `now`"""
    from sym import ipaths, bool_outcomes
    rows, bad = [], []
    nowcap = None
    for p in ipaths(F, c, stop=lambda n: False, depth=2):
        hooks = [e for e in p.events if not e.log and e.generic.startswith("std::ops::Fn") and mentions(e.args[0], lambda s_: s_ == ("env",))]
        for atoms, keep in bool_outcomes(p):
            le = None
            for a in atoms:
                if a[0] == "bool" and a[1][0] == "call" and a[1][1].endswith("PartialOrd::le") and len(a[1][2]) == 2:
                    x, y = a[1][2]
                    if x[0] == "field" and x[1] == ("env",) and y == ("param", 3):
                        nowcap = x[2].lstrip("*")
                        nowcap = x[2]
                        le = a[2]
                    elif y[0] == "field" and y[1] == ("env",) and x == ("param", 3):
                        bad.append("the boundary is tested as expiry <= now: an entry would be evicted at its exact expiry instant, which reads still serve")
                    else:
                        bad.append("unrecognised comparison %s" % fmt(a[1])[:80])
            if le is None:
                bad.append("an outcome is reached without comparing now with the entry's expiry")
                continue
            rows.append((le, keep, len(hooks)))
            if keep != le:
                bad.append("now <= expiry is %s but the entry is %s" % (le, "kept" if keep else "dropped"))
            if len(hooks) != (0 if keep else 1):
                bad.append("entry %s but the evict hook runs %d time(s)" % ("kept" if keep else "dropped", len(hooks)))
            for h in hooks:
                if not mentions(h.args[1], lambda s_: s_ == ("param", 2)):
                    bad.append("the evict hook is not given the entry's id")
    return rows, bad, nowcap


def run(ctx):
    F = ctx.facts
    T = TickerModel(ctx)
    S = StoreModel(ctx)
    M = WeightModel(ctx)
    if not T.adt:
        ctx.bad("R10.0", "ticker-adt", "expiry index type not found", detail="ANCHOR-MISSING")
        return
    maps_ = {o["mapping"] for o in T.ops if o.get("mapping") is not None}
    ctx.check(len(maps_) == 1 and len(T.shard_fns) <= 1, "R10.1", "one-shard-function", "the expiry -> shard mapping has exactly one definition (every map operation selects its shard by the same computation)", detail=str(sorted(maps_, key=repr))[:300])
    ops = [o for o in T.ops if o["kind"] in ("insert", "remove", "get", "retain")]
    ctx.floor("R10.1", "expiry-index map operations", len(ops), 4)
    for o in ops:
        f = o["fn"]
        ctx.touch(f)
        key = "%s|%s@%s" % (f.name, o["kind"], "shard-of-" + (fmt(o["shard_arg"]) if o["shard_arg"] is not None else "?"))
        ctx.check(o["shard_arg"] is not None, "R10.1", key + "|shard-from-expiry", "the map operation is performed on shards[shard_index(expiry)]", o["site_fn"].where(o["bb"]))
        if o["shard_arg"] is None:
            continue
        if o["kind"] == "insert":
            ctx.check(same_value(o["args"][1], o["shard_arg"]), "R10.1", key + "|insert-under-own-expiry",
                      "an entry is inserted into the shard of the expiry it is stored with", o["site_fn"].where(o["bb"]), "value=%s shard_of=%s" % (fmt(o["args"][1]), fmt(o["shard_arg"])))
        if o["kind"] in ("insert", "remove", "get") and f.kind != "Closure":
            ctx.check(o["args"][0][0] == "param", "R10.1", key + "|keyed-by-id-param", "the entry is keyed by the id passed in", o["site_fn"].where(o["bb"]), fmt(o["args"][0]))
    # update = remove under old, insert under new
    for name in sorted(T.move_fns):
        f = F.fn(name)
        ok, why = T.move_check(name)
        ctx.check(ok, "R10.1", "%s|move-old-to-new" % name, "a TTL change first removes the id from the old expiry's shard and then inserts it under the new expiry's shard, on every path (insert-then-remove would delete the fresh entry whenever both expiries share a shard)", f.where(), why)

    # ---- R10.10 index operations always happen
    from core import no_try_locks
    no_try_locks(ctx, "R10.10", {"T"}, "an index entry that is not removed / moved keeps its old deadline and the sweep later removes a live key; one that is not inserted is never swept")
    # ---- R10.2 sweep ------------------------------------------------------------------------------
    retains = [o for o in T.ops if o["kind"] == "retain"]
    ctx.floor("R10.2", "sweep (retain) sites", len(retains), 1)
    for o in retains:
        f = o["fn"]
        sa = o["shard_arg"]
        ctx.check(sa is not None and is_call_to(sa, "Clock::now"), "R10.2", "%s|sweeps-shard-of-now" % f.name, "the sweep visits the shard of the current time", o["site_fn"].where(o["bb"]), fmt(sa) if sa else "")
        clo = o["args"][0]
        if clo[0] != "agg":
            ctx.bad("R10.2", "%s|retain-closure" % f.name, "retain predicate is a closure literal", o["site_fn"].where(o["bb"]))
            continue
        c = F.fn(clo[1])
        ctx.touch(c)
        caps = dict(clo[3])
        nowname = retain_table(F, c)[2] or "now"
        ctx.check(strip_site(caps.get(nowname)) == strip_site(sa) if sa else False, "R10.2", "%s|one-now-per-sweep" % c.name,
                  "the predicate's `now` is the same reading that selected the shard", c.where())
        rows, bad, nowcap = retain_table(F, c)
        ctx.check(not bad and {r_[0] for r_ in rows} == {True, False}, "R10.2", "%s|hook-iff-not-kept" % c.name,
                  "the evict hook is called exactly when the entry is not retained (now > expiry), with that entry's id, and the predicate's result is that comparison (%d rows)" % len(rows), c.where(),
                  "; ".join(sorted(set(bad))[:3]))
    c09_boundary(ctx)

    # ---- R10.3 registration pairing ------------------------------------------------------------------
    n_reg = 0
    for fname in sorted(S.insert_fns):
        g = F.fn(fname)
        if g.rec.get("ret") != "std::time::SystemTime":
            continue
        # the function returns the expiry of the value it inserted
        ok = True
        n_ins = 0
        r = None
        own_ = (g.rec.get("self_ty") or "").split("<")[0]
        for p_ in ipaths(F, g, stop=lambda n_: not (n_ in F.fns and (F.fns[n_].rec.get("self_ty") or "").split("<")[0] == own_), depth=2):
            ie = [e for e in p_.events if dashmap_call(e.t) == ("insert", "S")]
            for e in ie:
                n_ins += 1
                val = e.args[2]
                r = p_.ret
                ok = ok and mentions(r, lambda s_: s_[0] == "field" and s_[2] == "expire_after" and strip_site(s_[1]) == strip_site(val))
        ctx.check(ok and n_ins >= 1, "R10.3", "%s|returns-stored-expiry" % fname, "the TTL insert returns the expiry of the very value it stored", g.where(), fmt(r) if r else "")
        for h, bb, t in [(h, bb, t) for n, h in F.fns.items() for bb, t in h.calls() if t.get("rpath") == fname]:
            n_reg += 1
            ires = h.origin_call(bb, t)
            kp, ip = insert_params(F, g)
            idarg = h.op_origin(t["args"][ip - 1]) if ip else None
            regs = [(b2, t2) for b2, t2 in h.calls() if t2.get("rpath") in T.register_only]
            good = [b2 for b2, t2 in regs if strip_site(h.op_origin(t2["args"][2])) == strip_site(ires) and idarg is not None and same_value(h.op_origin(t2["args"][1]), idarg)]
            ctx.check(len(good) == 1 and h.must_pass([bb], good) and len(regs) == 1, "R10.3", "%s|register-inserted-expiry" % h.name,
                      "after a TTL insert the handler registers (same id, the returned expiry) in the expiry index, on every path", h.where(bb))
    ctx.floor("R10.3", "TTL insert call sites", n_reg, 1)
    # a TTL added / changed / removed through the upsert must reach the index too (shared with C08 R08.3)
    import c08
    for o in ctx.own_of("c08"):
        if o["rule"] == "R08.3" and "classification-drives-index" in o["key"]:
            ctx._add(o["status"], "R10.3", o["key"].split("|", 1)[1], o["desc"] + " [an expiry stored by an upsert that is not registered is never swept]", o["where"], o["detail"])
        if o["rule"] == "R08.2" and "classification-table" in o["key"]:
            ctx._add(o["status"], "R10.3", o["key"].split("|", 1)[1], o["desc"] + " [a changed expiry classified as 'nothing' leaves the index entry under the old deadline: the sweep then removes a key that is not expired]", o["where"], o["detail"])
        if o["rule"] == "R08.9" and "response-reports-resulting-expiry" in o["key"]:
            ctx._add(o["status"], "R10.3", o["key"].split("|", 1)[1], o["desc"] + " [a made-up (old, new) expiry pair makes the index drop or keep the wrong entry: an expired key is then never swept]", o["where"], o["detail"])

    # ---- R10.4 unregistration in the delete handler ------------------------------------------------------
    n_unreg = 0
    for n, h in F.fns.items():
        if not any(t.get("rpath") in S.remove_fns for b, t in h.calls()) or h.kind == "Closure":
            continue
        unregs = [(b, t) for b, t in h.calls() if t.get("rpath") in T.unregister_fns]
        if not unregs:
            continue
        n_unreg += 1
        ctx.touch(h)
        bad = []
        for p in enum_paths(h):
            atoms = path_atoms(h, p)
            calls = path_calls(h, p)
            rem = [(b, t) for b, t in calls if t.get("rpath") in S.remove_fns]
            un = [(b, t) for b, t in calls if t.get("rpath") in T.unregister_fns]
            if len(rem) != 1:
                continue
            removed = h.origin_call(rem[0][0], rem[0][1])
            some = [a for a in atoms if a[0] == "enum" and strip_site(a[1]) == strip_site(removed)]
            had = [a for a in atoms if a[0] == "enum" and a[1][0] == "field" and any(strip_site(c) == strip_site(removed) for c in root_calls(a[1])) and a is not (some[0] if some else None)]
            if some and some[0][2] == ("Some",) and had and had[0][2] == ("Some",):
                if len(un) == 0:
                    continue        # leaving a stale index entry behind is inert (R10.5): not a violation of C10
                if len(un) != 1:
                    bad.append(("entry with an expiry removed but unregistered %d times" % len(un), p))
                    continue
                ida, ea = h.op_origin(un[0][1]["args"][1]), h.op_origin(un[0][1]["args"][2])
                if not (any(strip_site(c) == strip_site(removed) for c in root_calls(ida)) and strip_site(ea) == ("field", ("variant", strip_site(had[0][1]), "Some"), "0")):
                    bad.append(("unregisters with id/expiry not read from the removed entry", p))
            elif un:
                bad.append(("unregisters although no entry with an expiry was removed", p))
        ctx.check(not bad, "R10.4", "%s|unregister-iff-had-expiry" % n, "when the delete handler unregisters an expiry-index entry it does so only for a removed entry that had an expiry, with that entry's own id and expiry (a wrong pair would orphan another key's entry)", h.where(), "; ".join("%s via %s" % x for x in bad[:3]))
    ctx.note("R10.4: %d delete handler(s) unregister expiry-index entries" % n_unreg)

    # ---- R10.5 id guard: stale index entries are inert ------------------------------------------------------
    id_guard(ctx, M, "R10.5")

    no_overwrite(ctx, "R10.8")
    # ---- R10.9 the sweeper cannot be trapped in a lock-order cycle (necessary for 'as sweeps keep occurring ...') -------
    import c18
    edges, _b, _n, _i = c18.lock_graph(ctx, record_ok=False)
    graph = {}
    for (h, a2), sites in edges.items():
        graph.setdefault(h, set()).add(a2)
    cyc = c18.find_cycle(graph)
    relevant = set()
    for o in retains:
        for nid in F.insts_of(o["fn"].name):
            relevant |= {F.def_of(n) for n in F.inst_reach([nid])}
    bad_cycle = None
    if cyc:
        cyc_edges = [(h, a2) for (h, a2) in edges if h in cyc and a2 in cyc and h != a2]
        if any(s[0].name in relevant for e2 in cyc_edges for s in edges[e2]):
            bad_cycle = cyc
    ctx.check(bad_cycle is None, "R10.9", "no-lock-cycle-through-sweeper",
              "no lock-order cycle involves code the sweeper runs (its shard lock is held across the evict hook): otherwise sweeping stops for good and expired keys are never reclaimed",
              detail=("cycle %s" % " -> ".join(bad_cycle)) if bad_cycle else "")

    # ---- R10.6 the sweeper's hook reaches release and store removal -------------------------------------------
    spawn = F.spawn_closures()
    sw = [o["fn"] for o in retains]
    ok = False
    dec_fns = {s["fn"].name for s in M.dec_sites}
    for f in sw:
        for nid in F.insts_of(f.name):
            r = F.inst_reach([nid])
            defs = {F.def_of(n) for n in r}
            if defs & dec_fns and defs & S.remove_fns:
                ok = True
    ctx.check(ok, "R10.6", "sweeper-hook-releases-and-removes", "in the running cache the sweeper's evict hook reaches the weight release and the store removal", sw[0].where() if sw else None)


def insert_params(F, g):
    import c05
    return c05.insert_params(F, g)


def c09_boundary(ctx):
    """R10.7 = R09.6"""
    for o in ctx.own_of("c09"):
        if o["rule"] == "R09.6":
            ctx._add(o["status"], "R10.7", o["key"].split("|", 1)[1], o["desc"], o["where"], o["detail"])


def id_guard(ctx, M, RULE):
    """the release function calls the removal hook only when the id was still in the weight map, with the key stored there"""
    F = ctx.facts
    n = 0
    for s in M.dec_sites:
        f = s["fn"]
        hooks = [(b, t) for b, t in f.calls() if t["callee"].startswith("std::ops::Fn") and f.op_origin(t["args"][0])[0] == "param"]
        if not hooks:
            continue
        n += 1
        rem = [(b, t) for b, t in f.calls() if dashmap_call(t) == ("remove", "KW")]
        ok = len(rem) == 1 and len(hooks) == 1
        if ok:
            rb, rt = rem[0]
            removed = f.origin_call(rb, rt)
            from core import variant_edges_of
            by_switch = {}
            for nme, e_ in variant_edges_of(f, removed):
                if nme == "Some":
                    by_switch.setdefault(e_[0], []).append(e_)
            hb, ht = hooks[0]
            # (a later switch on the same value - drop elaboration - is not the test that guards the release)
            guards_ = [es for es in by_switch.values() if all(f.edge_dominates(e, hb) for e in es) and all(f.edge_dominates(e, s["bb"]) for e in es)]
            ok = bool(guards_)
            arg = f.op_origin(ht["args"][1])
            ok = ok and mentions(arg, lambda x: x[0] == "field" and x[2] == "key" and any(strip_site(c) == strip_site(removed) for c in root_calls(x)))
            ok = ok and f.op_origin(rt["args"][1])[0] == "param"
        if len(hooks) == 1:
            hb0 = hooks[0][0]
            ctx.check("WU" in f.held_before_term(hb0), RULE, "%s|hook-under-total-weight-lock" % f.name,
                      "the store-removal hook runs while the total-weight write lock is held: the admission path takes that lock before it can re-insert the key, so 'release the id, then remove the entry by key' cannot be interleaved with a re-put of the same key",
                      f.where(hb0), "held at the hook call: %s" % sorted(f.held_before_term(hb0)))
        ctx.check(ok, RULE, "%s|release-and-hook-only-if-id-present" % f.name,
                  "weight is released and the store-removal hook runs only if the id was still in the weight map, and the hook receives the key recorded with that id", f.where())
    ctx.floor(RULE, "release functions with a removal hook", n, 1)
    # the hooks themselves: once the release function has dropped the id and its weight, the hook is all that is left to take
    # the entry out of the store - every closure handed in as the removal hook removes the entry of the key it is given,
    # unconditionally (a hook that looks again and keeps an entry it finds alive leaves a readable key charged nowhere)
    hook_params = set()
    for s in M.dec_sites:
        f = s["fn"]
        for b, t in f.calls():
            if t["callee"].startswith("std::ops::Fn"):
                o = f.op_origin(t["args"][0])
                if o[0] == "param":
                    hook_params.add((f.name, o[1]))
    hook_closures = {}
    from core import closure_captures

    def callers_of(fn_):
        return [(g, b, t) for g in F.fns.values() for b, t in g.calls() if t.get("rpath") == fn_ and t["res"] == "item"]

    seen_r = set()

    def resolve_hook(g, e, where, depth=0):
        """closures a callable-valued expression of g may denote: through parameters (every call site), struct fields of
        parameters (the aggregate built by the caller), closure captures and references"""
        key = (g.name, repr(strip_site(e)))
        if key in seen_r or depth > 12:
            return
        seen_r.add(key)
        while e[0] in ("ref", "deref") and len(e) >= 2 and isinstance(e[1], tuple):
            e = e[1]
        if e[0] == "agg" and e[1] in F.fns and F.fns[e[1]].kind == "Closure":
            hook_closures.setdefault(e[1], where)
            return
        if e[0] == "param" and g.kind != "Closure":
            for h, b, t in callers_of(g.name):
                if len(t["args"]) >= e[1]:
                    resolve_hook(h, h.op_origin(t["args"][e[1] - 1]), h.where(b), depth + 1)
            return
        if e[0] == "field" and e[1] == ("env",) and g.kind == "Closure":
            cc = closure_captures(F, g.name)
            if cc and e[2] in cc[1]:
                resolve_hook(cc[0], cc[1][e[2]], where, depth + 1)
            return
        if e[0] == "field":
            base = e[1]
            while base[0] in ("ref", "deref") and len(base) >= 2 and isinstance(base[1], tuple):
                base = base[1]
            if base[0] == "agg":
                fv = dict(base[3]).get(e[2])
                if fv is not None:
                    resolve_hook(g, fv, where, depth + 1)
                return
            if base[0] == "param" and g.kind != "Closure":
                for h, b, t in callers_of(g.name):
                    if len(t["args"]) >= base[1]:
                        resolve_hook(h, ("field", h.op_origin(t["args"][base[1] - 1]), e[2]), h.where(b), depth + 1)
                return
            if base[0] == "field":
                # a field of a field: resolve the inner aggregate first where it is built
                inner = []
                def collect(x):
                    inner.append(x)
                resolve_hook(g, ("field", base, e[2]) if False else base, where, depth + 1)
            return
    for fn_, pi in sorted(hook_params):
        resolve_hook(F.fns[fn_], ("param", pi), F.fns[fn_].where())
    from sym import ipaths
    from storemodel import StoreModel
    S_remove = set(StoreModel(ctx).remove_fns)
    for cn in sorted(hook_closures):
        c = F.fns[cn]
        bad = []
        n_p = 0
        cpaths = ipaths(F, c, stop=lambda n_: False, depth=3)
        if cpaths and all(not [e for e in p.events if not e.log] and not p.stores for p in cpaths):
            # a do-nothing hook is right exactly where the caller has already taken the entry out itself (the worker's
            # Delete: store removal first, then release of the id it found): every use of the function that passes it
            # comes after a by-key store removal on the same path
            g = F.parent_fn(c)
            users = [(h, b) for h in F.fns.values() for b, t in h.calls() if t.get("rpath") == g.name and t["res"] == "item"]
            badu = []
            for h, b in users:
                hs = ipaths(F, h, stop=lambda n_, gn=g.name: n_ == gn or n_ in S_remove, depth=2)
                for p in hs:
                    for e in p.calls({g.name}):
                        if not any(x.seq < e.seq for x in p.calls(S_remove)):
                            badu.append("%s releases through %s with a do-nothing hook on a path that has not removed the store entry" % (h.name.split("::")[-1], g.name.split("::")[-1]))
            ctx.check(not badu, RULE, "%s|hook-removes-entry-unconditionally" % cn,
                      "a do-nothing removal hook is used only after the caller removed the store entry itself (%d use(s))" % len(users), c.where(), "; ".join(sorted(set(badu))[:2]))
            continue
        for p in cpaths:
            n_p += 1
            rem = [e for e in p.events if dashmap_call(e.t) == ("remove", "S")]
            if len(rem) != 1:
                cond = [e for e in p.events if (dashmap_call(e.t) or ("",))[0] in ("remove_if", "remove_if_mut")]
                bad.append("a path of the hook %s" % ("removes the entry only if a condition holds (remove_if)" if cond else "performs %d store removals" % len(rem)))
            elif not mentions(rem[0].args[1], lambda s_: s_ == ("param", 2)):
                bad.append("the hook removes another key than the one it is given")
        ctx.check(not bad and n_p >= 1, RULE, "%s|hook-removes-entry-unconditionally" % cn,
                  "the removal hook takes the entry of the key it is given out of the store on every path, whatever the entry looks like by then", c.where(), "; ".join(sorted(set(bad))[:2]))
    ctx.floor(RULE, "removal hook closures", len(hook_closures), 1)
    # ids are fresh per incarnation
    kd = [a for a in F.adts if a.endswith("KeyDescription")]
    sites = []
    for name, f in F.fns.items():
        for bb, t in f.calls():
            if t.get("rpath", "").endswith("KeyDescription::<Key>::new"):
                sites.append((f, bb, t))
    okid = bool(sites)
    idf = description_fields(ctx)[0]
    for f, bb, t in sites:
        # the value that ends up in the description's *id field* (the field the weight map is keyed by), whatever the
        # constructor does with its arguments
        from core import inline_ctor
        kd = inline_ctor(F, f.origin_call(bb, t))
        ida = dict(kd[3]).get(idf) if (kd[0] == "agg" and idf) else f.op_origin(t["args"][1])
        if ida is None:
            okid = False
            continue
        fresh = mentions(ida, lambda x: is_call_to(x, "fetch_add"))
        if not fresh and ida[0] == "call" and ida[1] in F.fns:
            g = F.fns[ida[1]]
            fresh = mentions(g.origin_local(0), lambda x: is_call_to(x, "fetch_add"))
        okid = okid and fresh
    ctx.check(okid, RULE, "ids-fresh", "every key description gets its id from the atomic fetch_add generator (an old index entry can never name a newer incarnation)",
              detail=str([f.where(bb) for f, bb, t in sites]))

def description_fields(ctx):
    """(id field, hash field) of the key description: the id is the u64 field the weight map is keyed by when the key is
    charged; the hash is the other u64 field"""
    F = ctx.facts
    kd = [n for n in F.adts if n.endswith("KeyDescription")]
    if not kd:
        return None, None
    u64s = [fl["name"] for fl in F.adts[kd[0]]["variants"][0]["fields"] if fl["ty"] == "u64"]
    idf = None
    for n, f in F.fns.items():
        for b, t in f.calls():
            if dashmap_call(t) == ("insert", "KW"):
                k = f.op_origin(t["args"][1])
                if k[0] == "field" and k[2] in u64s:
                    idf = k[2]
    hf = [x for x in u64s if x != idf]
    return idf, (hf[0] if len(hf) == 1 else None)


def configured_hash_rule(ctx, RULE):
    """one hash per key everywhere: the hash recorded in a key description (the one admission estimates) and the hash pushed
    into the access buffers on a hit are both `config.<hash fn>(that key)` - the same configured function, applied to the
    key itself"""
    from core import inline_ctor
    F = ctx.facts
    idf, hf = description_fields(ctx)
    forms = []

    def form_of(e, depth=0):
        """(config field name, key expr) of `call(<x>.<field>, (key,))` through Fn::call; a local helper that only
        computes that (`fn hash_of(&self, key)`) is looked through"""
        if e[0] == "call" and "Fn" in e[1] and len(e[2]) == 2 and e[2][0][0] == "field" and e[2][1][0] == "agg" and len(e[2][1][3]) == 1:
            return e[2][0][2], e[2][1][3][0][1]
        if e[0] == "call" and e[1] in F.fns and depth < 3 and F.fns[e[1]].kind != "Closure":
            from core import subst_params
            return form_of(subst_params(F.fns[e[1]].origin_local(0), list(e[2])), depth + 1)
        return None
    n = 0
    for name, f in F.fns.items():
        for bb, t in f.calls():
            if t.get("rpath", "").endswith("KeyDescription::<Key>::new"):
                kd = inline_ctor(F, f.origin_call(bb, t))
                d = dict(kd[3]) if kd[0] == "agg" else {}
                fo = form_of(d.get(hf)) if hf and d.get(hf) is not None else None
                n += 1
                keyf = [v for k_, v in d.items() if k_ not in (idf, hf) and v[0] == "param"]
                ctx.check(fo is not None and any(strip_site(fo[1]) == strip_site(k_) for k_ in keyf), RULE, "%s|description-hash-is-configured-hash-of-its-key" % name,
                          "the hash recorded in a key description is the configured hash function applied to that description's own key", f.where(bb), fmt(d.get(hf))[:100] if hf else "")
                if fo:
                    forms.append(fo[0])
            if t.get("rpath", "").endswith("Pool::<Consumer>::add") and len(t["args"]) >= 2:
                h = f.op_origin(t["args"][1])
                if h[0] == "param":
                    continue        # forwarded: judged at the caller
                fo = form_of(h)
                n += 1
                ctx.check(fo is not None and fo[1][0] == "param", RULE, "%s|access-hash-is-configured-hash-of-the-key" % name,
                          "the hash pushed into the access buffers is the configured hash function applied to the key that was read", f.where(bb), fmt(h)[:100])
                if fo:
                    forms.append(fo[0])
    ctx.check(len(set(forms)) == 1 and n >= 2, RULE, "one-configured-hash-function",
              "key descriptions and access records use the same configured hash function (so admission asks the sketch about the hash the reads were counted under)", detail=str(sorted(set(forms))))


def no_overwrite(ctx, RULE):
    """hooks remove store entries by key: that hits the right incarnation only if a store insert never overwrites
    an existing entry (C05 R05.3)"""
    import c05
    for o in ctx.own_of("c05"):
        if o["rule"] == "R05.3":
            ctx._add(o["status"], RULE, o["key"].split("|", 1)[1],
                     o["desc"] + " [needed here because the eviction/expiry hooks remove the store entry by key: an overwritten entry would make a stale id remove a newer incarnation]", o["where"], o["detail"])
