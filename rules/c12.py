"""C12 — every acknowledgement resolves exactly once to the command's real outcome.

Decided statically (DESIGN §4 C12): publication order status -> flag in every completion function,
memory orderings of the flag, poll() shape (register waker / will_wake, waker lock held at the flag load,
status read only under the flag's true edge), wake after flag, constructor pairing, who may complete.
"""
from core import (subst_params, strip_site, bool_branch, enum_branch, variant_edges, is_call_to, root_calls, field_path, mentions,
                  subexprs, fmt, const_of)

WITNESSES = ['W4DonePrivate']
from sym import ipaths

LEVEL = "proof"
EXPLANATION = ("Proof by structural obligations over MIR: the flag store is dominated by the status write and "
               "followed by the waker hand-over; poll registers its waker under the waker lock before loading the "
               "flag with Acquire and reads the status only on the flag's true edge; Pending is paired only with "
               "flag=false in the one constructor feeding queued commands; done() is reachable only from the "
               "command worker. Together with Release/Acquire semantics this entails: Ready(x) => x is the final "
               "status, and a poll that returned Pending is woken.")
ASSUMPTIONS = ["parking_lot::Mutex provides mutual exclusion; AtomicBool Release/Acquire semantics as documented",
               "Waker::wake_by_ref wakes the task that registered the waker"]


def handle_adt(ctx):
    """the acknowledgement handle = the ADT with an atomic bool flag, a Mutex<CommandStatus> and a Mutex<WakerState-like>"""
    for name, adt in ctx.facts.adts.items():
        if adt["kind"] != "Struct":
            continue
        fs = adt["variants"][0]["fields"]
        flag = [f for f in fs if "Atomic<bool>" in f["ty"] or "AtomicBool" in f["ty"]]
        status = [f for f in fs if "Mutex<" in f["ty"] and "CommandStatus" in f["ty"]]
        waker = [f for f in fs if "Mutex<" in f["ty"] and "CommandStatus" not in f["ty"]]
        if len(flag) == 1 and len(status) == 1 and len(waker) == 1:
            return name, flag[0]["name"], status[0]["name"], waker[0]["name"]
    return None


def is_field_of(e, fname):
    return isinstance(e, tuple) and e[0] == "field" and e[2] == fname


def lock_of_field(e, fname):
    """expression rooted in Mutex::lock(<...>.fname)"""
    from core import unclone
    for c in root_calls(unclone(e)):
        if "Mutex::<R, T>::lock" in c[1] and c[2] and is_field_of(c[2][0], fname):
            return True
    return False


def ordering_name(e):
    if isinstance(e, tuple) and e[0] == "agg" and "atomic::Ordering" in e[1]:
        return e[2]
    return None


def run(ctx):
    F = ctx.facts
    h = handle_adt(ctx)
    if not h:
        ctx.bad("R12.0", "handle-adt", "acknowledgement handle (atomic flag + status mutex + waker mutex) not found", detail="ANCHOR-MISSING")
        return
    hname, FLAG, STATUS, WAKER = h
    ctx.ok("R12.0", "handle-adt|%s" % hname, "acknowledgement handle identified by field types: flag=%s status=%s waker=%s" % (FLAG, STATUS, WAKER))

    completions, pollers = [], []
    for name, f in F.fns.items():
        # a store of the flag, or a read-modify-write that sets it (swap / fetch_or / compare_exchange used as a "first
        # completion wins" claim): the flag is visible to a poll from that instruction on, exactly as with a store
        for meth, vi, oi in (("store", 1, 2), ("swap", 1, 2), ("fetch_or", 1, 2), ("compare_exchange", 2, 3), ("compare_exchange_weak", 2, 3)):
            for bb, t in f.calls_to("std::sync::atomic::Atomic::<bool>::" + meth):
                if t["callee"].endswith("::" + meth) and is_field_of(f.op_origin(t["args"][0]), FLAG) and F.adts.get(hname) and hname.split("::")[-1] in f.locals[1]["ty"]:
                    completions.append((f, bb, dict(t, args=[t["args"][0], t["args"][vi], t["args"][oi]])))
        for bb, t in f.calls_to("std::sync::atomic::Atomic::<bool>::load"):
            if is_field_of(f.op_origin(t["args"][0]), FLAG) and hname.split("::")[-1] in f.locals[1]["ty"]:
                pollers.append((f, bb, t))
    ctx.floor("R12.1", "functions storing the completion flag", len(completions), 1)
    ctx.floor("R12.3", "functions loading the completion flag", len(pollers), 1)

    # ---- completion side ---------------------------------------------------------------------
    for f, sbb, st in completions:
        ctx.touch(f)
        key = f.name
        val = const_of(f.op_origin(st["args"][1]))
        ctx.check(val == 1, "R12.1", "%s|flag-value" % key, "the completion flag is only ever set to true", f.where(sbb))
        o = ordering_name(f.op_origin(st["args"][2]))
        # (the status travels under its own mutex and the wake-up under the waker mutex: those give the happens-before edges the
        # argument of R12.1/R12.3/R12.4 needs, so the ordering chosen for the flag itself is recorded, not required)
        ctx.ok("R12.2", "%s|store-ordering" % key, "flag store ordering recorded: %s (the mutexes around status and waker carry the synchronisation)" % o, f.where(sbb))
        writes = [(b, i) for (b, i, tgt, rv, s) in f.stores() if lock_of_field(tgt, STATUS)]
        ctx.check(len(writes) >= 1, "R12.1", "%s|status-write-exists" % key,
                  "a completion function writes the final status through the status mutex", f.where())
        before = all(f.block_dominates(b, sbb) and b != sbb for b, i in writes) and bool(writes)
        after = [b for b, i in writes if b in f.reach_after(sbb) or b == sbb]
        ctx.check(before and not after, "R12.1", "%s|status-write-dominates-flag-store" % key,
                  "publication order: the status write must dominate the flag store and no status write may follow it "
                  "(otherwise a poll can observe flag=true with status still Pending)",
                  f.where(sbb), "flag store at %s; status write(s) at %s" % (f.where(sbb), [f.where(b, i) for b, i in writes]))
        # the written status is the function's parameter (the real outcome), not a constant
        for (b, i, tgt, rv, s) in f.stores():
            if lock_of_field(tgt, STATUS):
                ctx.check(rv[0] == "param", "R12.1", "%s|status-value-is-parameter" % key,
                          "the status written is the outcome passed in by the worker", f.where(b, i), fmt(rv))
        # status guard released before the waker lock is taken / the waker is called (no AS held at wake)
        wakes = f.calls_to("std::task::Waker::wake_by_ref", "std::task::Waker::wake")
        ctx.check(len(wakes) >= 1, "R12.4", "%s|wake-exists" % key, "completion wakes the registered waker", f.where())
        for wb, wt in wakes:
            ctx.check(f.block_dominates(sbb, wb) and wb != sbb, "R12.4", "%s|wake-after-flag" % key,
                      "the waker is invoked only after the flag is set", f.where(wb))
            wo = f.op_origin(wt["args"][0])
            ctx.check(lock_of_field(wo, WAKER), "R12.4", "%s|wake-from-slot" % key,
                      "the waker invoked is the one read from the waker slot under its lock", f.where(wb), fmt(wo))
        # every path from the flag store to return inspects the waker slot under its lock
        wlocks = [b for b, t in f.calls_to("Mutex::<R, T>::lock") if is_field_of(f.op_origin(t["args"][0]), WAKER)]
        ctx.check(bool(wlocks) and f.must_pass([s for s in f.succs(sbb)], wlocks) and all(f.block_dominates(sbb, b) for b in wlocks),
                  "R12.4", "%s|waker-lock-after-flag" % key,
                  "after setting the flag every path takes the waker lock (so a poll that registered before is woken)", f.where(sbb))
        # Some(waker) => woken on every path
        for b in sorted(f.live_blocks()):
            ve = variant_edges(f, b)
            if not ve:
                continue
            scrut, edges = ve
            if lock_of_field(scrut, WAKER):
                for vname, tgt in edges:
                    if vname == "Some":
                        ctx.check(f.must_pass([tgt], [wb for wb, _ in wakes]), "R12.4", "%s|some-waker-is-woken" % key,
                                  "if a waker is registered it is woken on every path", f.where(b))

    # ---- poll side ---------------------------------------------------------------------------
    for f, lbb, lt in pollers:
        ctx.touch(f)
        key = f.name
        o = ordering_name(f.op_origin(lt["args"][1]))
        ctx.ok("R12.2", "%s|load-ordering" % key, "flag load ordering recorded: %s (the load happens under the waker mutex; the status is read under its own mutex)" % o, f.where(lbb))
        # waker registration (on symbolic paths: the store may sit in a `WakerState::register(&mut self, waker)` helper)
        spaths = ipaths(F, f, stop=lambda n: False, depth=3)
        reg = [(tgt, rv) for p_ in spaths for tgt, rv, w in p_.stores if lock_of_field(tgt, WAKER)]
        ok_val = True
        for tgt, rv in reg:
            good = rv[0] == "agg" and rv[2] == "Some" and mentions(rv, lambda s: is_call_to(s, "std::task::Context::<'a>::waker"))
            ok_val = ok_val and good
        ctx.check(bool(reg) and ok_val, "R12.3", "%s|registers-current-waker" % key,
                  "poll stores Some(clone of the current context's waker) into the waker slot", f.where())
        # on every symbolic path (closures and combinators inlined) the flag load is preceded by a registration into the
        # slot or by will_wake(slot's waker, current waker) having been true; nothing is registered after the load
        bad_before, bad_after, n_load = [], [], 0
        for p in spaths:
            lp = [e.seq for e in p.events if e.fn is f and e.bb == lbb]
            if not lp:
                continue
            n_load += 1
            regs = [w[3] for tgt, val, w in p.stores if lock_of_field(tgt, WAKER) and len(w) > 3]
            ww = [a for a in p.atoms if a[0] == "bool" and a[2] and is_call_to(a[1], "std::task::Waker::will_wake") and a[4] < lp[0]
                  and lock_of_field(a[1][2][0], WAKER) and mentions(a[1][2][1], lambda s_: is_call_to(s_, "std::task::Context::<'a>::waker"))]
            if not ww and not any(r < lp[0] for r in regs):
                bad_before.append(p)
            if any(r > lp[0] for r in regs):
                bad_after.append(p)
        ctx.check(n_load >= 1 and not bad_before, "R12.3", "%s|registration-dominates-flag-load" % key,
                  "on every path to the flag load the slot holds a waker for the current task (stored, or will_wake is true) (%d symbolic paths)" % n_load,
                  f.where(lbb), "; ".join(q.show() for q in bad_before[:2]))
        ctx.check(not bad_after, "R12.3", "%s|no-registration-after-load" % key,
                  "no waker registration happens after the flag was loaded", f.where(lbb))
        ctx.check("AW" in f.held_before_term(lbb), "R12.3", "%s|waker-lock-held-at-load" % key,
                  "the waker lock is held while the flag is loaded (done() cannot slip between registration and load unobserved)",
                  f.where(lbb), "held=%s" % sorted(f.held_before_term(lbb)))
        # the loaded flag decides: every path through the load branches on that very value, and the status mutex is locked
        # only after it was observed true
        lres0 = strip_site(f.origin_call(lbb, lt))
        thr = [p for p in spaths if any(e.fn is f and e.bb == lbb for e in p.events)]
        okb = bool(thr) and all(any(a[0] == "bool" and strip_site(a[1]) == lres0 for a in p.atoms) for p in thr)
        if not okb:
            ctx.bad("R12.3", "%s|flag-branch" % key, "the loaded flag is branched on directly", f.where(lbb))
            continue
        oks = True
        n_sl = 0
        for p in thr:
            fa = [a for a in p.atoms if a[0] == "bool" and strip_site(a[1]) == lres0]
            for e in p.events:
                if e.generic.endswith("Mutex::<R, T>::lock") and is_field_of(e.args[0], STATUS):
                    n_sl += 1
                    oks = oks and fa[0][2] and fa[0][4] < e.seq
        ctx.check(n_sl >= 1 and oks, "R12.3", "%s|status-read-under-true-edge" % key,
                  "the status is read only after the flag was observed true", f.where(lbb))
        # return values, per path: Ready(x) only with the flag observed true and x read from the status mutex; Pending only
        # with the flag observed false
        readys = pendings = 0
        lres = strip_site(f.origin_call(lbb, lt))
        for p in spaths:
            fl = [a for a in p.atoms if a[0] == "bool" and strip_site(a[1]) == lres]
            r = p.ret
            if r[0] == "agg" and r[2] == "Ready":
                readys += 1
                val = r[3][0][1]
                ctx.check(lock_of_field(val, STATUS) and bool(fl) and fl[0][2], "R12.3", "%s|ready-value-from-status" % key,
                          "Ready(x): x is read from the status mutex under the flag's true edge", f.where(), fmt(val))
            elif r[0] == "agg" and r[2] == "Pending":
                pendings += 1
                ctx.check(bool(fl) and not fl[0][2], "R12.3", "%s|pending-only-when-flag-false" % key,
                          "Poll::Pending is returned only when the flag was observed false", f.where())
            else:
                ctx.bad("R12.3", "%s|return-shape" % key, "poll returns Ready(status) or Pending only", f.where(), fmt(r)[:100])
        ctx.check(readys >= 1 and pendings >= 1, "R12.3", "%s|both-outcomes" % key, "poll has a Ready and a Pending outcome", f.where())

    # ---- constructors: Pending <=> flag false --------------------------------------------------
    # judged per path of every function that returns an acknowledgement it builds (helpers, enum-routed initial states
    # inlined): the handle aggregate found in the returned value pairs (flag=false, Pending) or (flag=true, final status)
    n_ctor = 0
    pending_sites = []
    for name, f in F.fns.items():
        for b in sorted(f.live_blocks()):
            for i, s_ in enumerate(f.blocks[b]["stmts"]):
                if s_["k"] == "assign" and s_["rv"]["k"] == "agg" and s_["rv"].get("adt", "").endswith("command::CommandStatus") and s_["rv"].get("variant") == "Pending":
                    pending_sites.append((f, b, i))
    ctor_kind = {}       # fn -> set of status variants it can start with
    short_h = hname.split("::")[-1].replace("Handle", "")
    for name, f in F.fns.items():
        rt = f.rec.get("ret") or ""
        if f.kind == "Closure" or short_h not in rt or rt.startswith("std::result::Result") or rt.startswith("&"):
            continue
        ps = ipaths(F, f, stop=lambda n_: False, depth=3)
        rows = []
        parametric = False
        for p in ps:
            aggs = [x for x in subexprs(p.ret) if x[0] == "agg" and x[1] == hname]
            if len(aggs) != 1:
                rows = None
                break
            fields = dict(aggs[0][3])
            fl = fields.get(FLAG)
            flag_val = const_of(fl[2][0]) if is_call_to(fl, "Atomic::<bool>::new") and fl[2] else None
            st = [x for x in subexprs(fields.get(STATUS)) if x[0] == "agg" and x[1].endswith("command::CommandStatus")]
            if flag_val is None or not st:
                parametric = parametric or mentions(aggs[0], lambda s_: s_[0] == "param")
                rows.append((None, None))
            else:
                rows.append((flag_val, st[0][2]))
        if not rows:
            continue
        if parametric and any(r[0] is None for r in rows):
            continue          # takes the flag / status as parameters: judged where it is called from
        n_ctor += 1
        okp = all(r[0] is not None and ((r[0] == 0) == (r[1] == "Pending")) for r in rows)
        ctor_kind[name] = {r[1] for r in rows}
        ctx.check(okp, "R12.5", "%s|ctor-pairing" % name, "constructor pairs (flag=false, Pending) or (flag=true, final status)", f.where(), str(rows))
    ctx.floor("R12.5", "acknowledgement constructors", n_ctor, 3)
    ctor_fns = {n for n, ks in ctor_kind.items() if ks == {"Pending"}}
    final_ctor_fns = {n for n, ks in ctor_kind.items() if "Pending" not in ks}
    ctx.check(len(pending_sites) == 1, "R12.5", "pending-constructed-once",
              "CommandStatus::Pending is constructed at exactly one site (the fresh acknowledgement)",
              detail=str([f.where(b, i) for f, b, i in pending_sites]))

    from ackmodel import worker_root
    # ---- who may complete: done() reachable only from the worker closure ------------------------
    spawn = F.spawn_closures()
    comp_defs = {f.name for f, _, _ in completions}
    callers = set()
    for nd in F.nodes:
        for bb, k, tgt, c in F.inst_edges(nd["id"]):
            if k == "local" and F.def_of(tgt) in comp_defs:
                callers.add(nd["def"])
    # where do the callers run: the spawned closures / caller-less entry points they are reached from
    from ackmodel import thread_roots
    final_callers = set()
    for d in callers:
        final_callers |= thread_roots(F, d, spawn)
    workers = {d for d in final_callers if d in spawn}
    ctx.check(final_callers and final_callers == workers and len(workers) == 1, "R12.5", "completion-only-from-worker",
              "the completion function is called only from one spawned worker closure (single completer => status written once per acknowledgement, see R11.3)",
              detail="callers=%s" % sorted(final_callers))

    # ---- R12.6: exactly one completion per queued command, after its handler, with the handler's status
    import c11
    from ackmodel import AckModel
    A = AckModel(ctx)
    W = c11.find_worker(ctx, A)
    if W is None:
        ctx.bad("R12.6", "worker", "the single command worker closure was not found", detail="ANCHOR-MISSING")
    else:
        c11.worker_loop(ctx, A, W, "R12.6", drain_liveness=True)

    # ---- R12.8 the one thread that completes acknowledgements can always get on: no lock-order cycle involves code the
    # command worker runs (its handlers, the eviction hooks they call).  A worker stuck behind the sweeper never calls
    # done() again: the current and every later write stay Pending for good.
    if W is not None:
        import c18
        bad_cycle, bad_self = c18.cycle_through(ctx, [W.name])
        ctx.check(bad_cycle is None and not bad_self, "R12.8", "no-lock-cycle-through-worker",
                  "no lock-order cycle (or same-class nested acquisition) involves code reachable from the command worker, the only completer of acknowledgements",
                  detail=("cycle %s" % " -> ".join(bad_cycle) if bad_cycle else "") + (" self %s" % bad_self[:2] if bad_self else ""))

    from core import no_try_locks
    no_try_locks(ctx, "R12.9", {"AS", "AW"}, "a status that is not written or a waker that is not registered / woken leaves the awaiting caller pending")
    # ---- queued pairs always carry a fresh (pending) acknowledgement -----------------------------
    n_pairs = 0
    for name, f in F.fns.items():
        for b in sorted(f.live_blocks()):
            for i, s in enumerate(f.blocks[b]["stmts"]):
                if s["k"] == "assign" and s["rv"]["k"] == "agg" and s["rv"].get("adt", "").endswith("CommandAcknowledgementPair"):
                    n_pairs += 1
                    e = f.origin_rvalue(s["rv"])
                    ack = dict(e[3]).get("acknowledgement")
                    fresh = any(x[0] == "call" and x[1] in ctor_fns for x in subexprs(ack)) and not any(
                        x[0] == "call" and x[1] in final_ctor_fns for x in subexprs(ack))
                    # the acknowledgement queued with a command comes from a constructor that always starts Pending
                    ctx.check(fresh, "R12.5", "%s|queued-ack-is-fresh" % name,
                              "a queued command carries a clone of a freshly created pending acknowledgement", f.where(b, i), fmt(ack))
    ctx.floor("R12.5", "queued command/acknowledgement pairs", n_pairs, 1)
