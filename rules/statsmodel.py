"""Statistics vocabulary: which function bumps which counter (discovered from the StatsType constant it passes
to the single fetch_add wrapper), and which functions read which counter."""
from core import subexprs


class StatsModel:
    def __init__(self, ctx):
        F = self.F = ctx.facts
        # the primitive: a function doing fetch_add on an element selected by a StatsType discriminant
        self.prim = None
        self.prim_get = None
        for name, f in F.fns.items():
            if f.calls_to("Atomic::<u64>::fetch_add") and any("StatsType" in l["ty"] for l in f.locals[1:f.argc + 1]):
                self.prim = name
            if f.calls_to("Atomic::<u64>::load") and any("StatsType" in l["ty"] for l in f.locals[1:f.argc + 1]):
                self.prim_get = name
        self.bump = {}     # fn name -> (StatsType variant, amount expr over the fn's params)
        self.read = {}     # fn name -> StatsType variant
        for name, f in F.fns.items():
            cs = [(b, t) for b, t in f.calls() if t["res"] == "item" and t.get("rlocal")]
            if len(cs) != 1 or len(f.live_blocks()) > 3:
                continue
            b, t = cs[0]
            if t.get("rpath") == self.prim and self.prim:
                v = f.op_origin(t["args"][1])
                if v[0] == "agg" and v[1].endswith("StatsType"):
                    self.bump[name] = (v[2], f.op_origin(t["args"][2]))
            if t.get("rpath") == self.prim_get and self.prim_get:
                v = f.op_origin(t["args"][1])
                if v[0] == "agg" and v[1].endswith("StatsType"):
                    self.read[name] = v[2]

    def bumps_of(self, variant):
        return {n for n, (v, a) in self.bump.items() if v == variant}
