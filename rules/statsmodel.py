"""Statistics vocabulary: which function bumps which counter and which functions read which counter, discovered on
path-sensitive paths (sym.py): a bump function is a function of the statistics type on every path of which exactly one
`AtomicU64::fetch_add` happens, on the element selected by a *constant* StatsType variant (however many private
helpers - `add(kind, n)`, `Counter::add(n)` - sit in between); a reader likewise with `load`."""
from core import subexprs, mentions


class StatsModel:
    def __init__(self, ctx):
        from sym import ipaths
        F = self.F = ctx.facts
        self.prim = None
        self.prim_get = None
        self.bump = {}     # fn name -> (StatsType variant, amount expr over the fn's params)
        self.read = {}     # fn name -> StatsType variant
        holder = None
        for name, adt in F.adts.items():
            if adt["kind"] == "Struct" and any("Counter" in fl["ty"] and ("[" in fl["ty"] or "Vec<" in fl["ty"]) for fl in adt["variants"][0]["fields"]):
                holder = name
        self.holder = holder

        def variant_in(e):
            vs = {x[2] for x in subexprs(e) if x[0] == "agg" and x[1].endswith("StatsType") and x[2]}
            return vs.pop() if len(vs) == 1 else None

        def param_selected(e):
            return mentions(e, lambda x: x[0] == "param" and x[1] >= 2)
        for name, f in F.fns.items():
            if f.kind == "Closure" or not holder or (f.rec.get("self_ty") or "").split("<")[0] != holder:
                continue
            ps = ipaths(F, f, stop=lambda n: False, depth=3)
            if not ps:
                continue
            adds = [[e for e in p.events if e.generic.endswith("Atomic::<u64>::fetch_add")] for p in ps]
            loads = [[e for e in p.events if e.generic.endswith("Atomic::<u64>::load")] for p in ps]
            if all(len(a) == 1 for a in adds) and not any(loads):
                vs = {variant_in(a[0].args[0]) for a in adds}
                if len(vs) == 1 and None not in vs:
                    self.bump[name] = (vs.pop(), adds[0][0].args[1])
                elif all(param_selected(a[0].args[0]) for a in adds) and any("StatsType" in l["ty"] for l in f.locals[1:f.argc + 1]):
                    self.prim = name
            if all(len(l) == 1 for l in loads) and not any(adds):
                vs = {variant_in(l[0].args[0]) for l in loads}
                if len(vs) == 1 and None not in vs:
                    self.read[name] = vs.pop()
                elif all(param_selected(l[0].args[0]) for l in loads) and any("StatsType" in l_["ty"] for l_ in f.locals[1:f.argc + 1]):
                    self.prim_get = name

    def bumps_of(self, variant):
        return {n for n, (v, a) in self.bump.items() if v == variant}
