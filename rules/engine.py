"""Check runner: extracts facts from /repo's working tree with the cachedlint driver, runs the rule
module of one property, matches known findings, writes evidence, prints the verdict."""
import hashlib
import importlib
import json
import os
import shutil
import subprocess
import sys
import time
import uuid

VERIF = os.path.dirname(os.path.dirname(os.path.abspath(__file__)))
WORK = os.path.join(VERIF, ".work")
DRIVER_DIR = os.path.join(VERIF, "driver")
DRIVER = os.path.join(DRIVER_DIR, "target", "debug", "cachedlint")
REPO = os.environ.get("VERIF_REPO", "/repo")

sys.path.insert(0, os.path.join(VERIF, "rules"))
import core  # noqa: E402


class AnchorMissing(Exception):
    pass


class Ctx:
    def __init__(self, prop, facts, tier, config="default"):
        self.prop = prop
        self.facts = facts
        self.tier = tier
        self.config = config
        self.obligations = []
        self.analysed = {"functions": set(), "call_sites": 0, "paths": 0}
        self.notes = []

    def _add(self, status, rule, key, desc, where, detail):
        full_key = "%s|%s" % (rule, key)
        for o in self.obligations:
            if o["key"] == full_key:
                # the same obligation reached through another instance/config: keep the worst verdict
                if o["status"] == "ok" and status != "ok":
                    o.update({"status": status, "where": where or "", "detail": detail or "", "desc": desc})
                return
        self.obligations.append({
            "key": full_key, "rule": rule, "desc": desc, "status": status,
            "where": where or "", "detail": detail or "", "config": self.config,
        })

    def ok(self, rule, key, desc, where=None, detail=None):
        self._add("ok", rule, key, desc, where, detail)

    def bad(self, rule, key, desc, where=None, detail=None):
        self._add("violated", rule, key, desc, where, detail)

    def check(self, cond, rule, key, desc, where=None, detail=None):
        (self.ok if cond else self.bad)(rule, key, desc, where, detail)
        return cond

    def fn(self, name):
        """anchor lookup by exact def path: a missing anchor fails closed"""
        f = self.facts.fn(name)
        if f is None:
            raise AnchorMissing("function %s not found in the analysed crate" % name)
        self.analysed["functions"].add(name)
        return f

    def floor(self, rule, what, found, minimum):
        """a rule matching fewer sites than were confirmed by reading passes vacuously: fail closed"""
        self.check(found >= minimum, rule, "floor|%s" % what,
                   "at least %d instance(s) of %s must be found (found %d)" % (minimum, what, found),
                   detail="ANCHOR-MISSING" if found < minimum else "")

    def note(self, s):
        self.notes.append(s)

    def own_of(self, modname):
        """obligations of another property's rule module (its own rules only, not what it shares in turn), computed
        once per fact base; empty when this context is itself being computed for sharing (no mutual recursion)"""
        if getattr(self, "no_share", False):
            return []
        cache = self.facts.__dict__.setdefault("_own_obligations", {})
        if modname not in cache:
            sub = Ctx(self.prop, self.facts, self.tier, self.config)
            sub.no_share = True
            try:
                importlib.import_module(modname).run(sub)
            except AnchorMissing as ex:
                sub.bad("ANCHOR", "missing|%s" % ex, "an anchor the rules rely on is missing (fail closed)", detail=str(ex))
            cache[modname] = sub.obligations
        return cache[modname]

    def touch(self, fn):
        self.analysed["functions"].add(fn.name if hasattr(fn, "name") else fn)


# ---------------------------------------------------------------------------------------------

def ensure_driver():
    src_m = 0
    for root, _, files in os.walk(os.path.join(DRIVER_DIR, "src")):
        for f in files:
            src_m = max(src_m, os.path.getmtime(os.path.join(root, f)))
    if os.path.exists(DRIVER) and os.path.getmtime(DRIVER) >= src_m:
        return
    env = dict(os.environ, CARGO_NET_OFFLINE="true")
    r = subprocess.run(["cargo", "+nightly", "build", "--offline"], cwd=DRIVER_DIR, env=env,
                       stdout=subprocess.PIPE, stderr=subprocess.STDOUT, text=True)
    if r.returncode != 0:
        print(r.stdout[-4000:])
        print("DRIVER-BUILD-FAILED")
        sys.exit(2)


def sysroot():
    return subprocess.check_output(["rustc", "+nightly", "--print", "sysroot"], text=True).strip()


def extract(repo=None, features=(), crate="tinylfu_cached", keep=False):
    """run the driver over `repo`'s *current working tree* in a fresh target dir (cargo's freshness
    cache can therefore never replay a stale analysis); returns the path of the fact file"""
    repo = repo or REPO
    ensure_driver()
    os.makedirs(os.path.join(WORK, "facts"), exist_ok=True)
    nonce = uuid.uuid4().hex
    out = os.path.join(WORK, "facts", "%s.json" % nonce)
    ck = None
    if os.environ.get("VERIF_DEV_FACTCACHE"):
        # development aid for re-running the mutation / seed / refactor corpora after a *rule* change: facts keyed
        # by the content of the analysed sources. Never set by ./check or any command registered in MANIFEST.json.
        h = hashlib.sha1(repr(sorted(features)).encode())
        for root, dirs, files in sorted(os.walk(os.path.join(repo, "src"))):
            dirs.sort()
            for fn_ in sorted(files):
                h.update(fn_.encode())
                with open(os.path.join(root, fn_), "rb") as fh:
                    h.update(fh.read())
        with open(os.path.join(repo, "Cargo.toml"), "rb") as fh:
            h.update(fh.read())
        with open(DRIVER, "rb") as fh:
            h.update(hashlib.sha1(fh.read()).digest())
        ck = os.path.join(WORK, "factcache", h.hexdigest() + ".json")
        os.makedirs(os.path.dirname(ck), exist_ok=True)
        if os.path.exists(ck):
            shutil.copyfile(ck, out)
            return out
    tdir = os.path.join(WORK, "target-%s" % nonce)
    env = dict(os.environ)
    env.update({
        "LD_LIBRARY_PATH": os.path.join(sysroot(), "lib") + ":" + env.get("LD_LIBRARY_PATH", ""),
        "RUSTFLAGS": "-Zmir-opt-level=0 -Awarnings -Zallow-features=",
        "RUSTC_WORKSPACE_WRAPPER": DRIVER,
        "CACHEDLINT_OUT": out,
        "CACHEDLINT_NONCE": nonce,
        "CACHEDLINT_CRATE": crate,
        "CARGO_TARGET_DIR": tdir,
        "CARGO_NET_OFFLINE": "true",
    })
    cmd = ["cargo", "+nightly", "check", "--offline", "--lib", "-j", "16"]
    if features:
        cmd += ["--features", ",".join(features)]
    try:
        r = subprocess.run(cmd, cwd=repo, env=env, stdout=subprocess.PIPE, stderr=subprocess.STDOUT, text=True)
    finally:
        if not keep:
            shutil.rmtree(tdir, ignore_errors=True)
    if r.returncode != 0:
        sys.stdout.write(r.stdout[-6000:])
        print("BUILD-FAILED: %s does not compile under the analysis driver; no verdict" % repo)
        sys.exit(2)
    if not os.path.exists(out):
        print("FACTS-MISSING: the driver did not run on %s" % crate)
        sys.exit(2)
    with open(out) as f:
        head = f.read(200)
    if nonce not in head:
        print("FACTS-STALE: nonce mismatch")
        sys.exit(2)
    if ck:
        shutil.copyfile(out, ck)
    return out


def run_witnesses(wanted):
    """compile-fail witnesses + compiling twins of witness/ (thorough tier): returns obligations"""
    import re
    wdir = os.path.join(VERIF, "witness")
    shutil.copyfile(os.path.join(REPO, "Cargo.lock"), os.path.join(wdir, "Cargo.lock"))
    env = dict(os.environ, RUSTFLAGS="-Zallow-features=", RUSTDOCFLAGS="-Zallow-features=", CARGO_NET_OFFLINE="true",
               CARGO_TARGET_DIR=os.path.join(WORK, "witness-target"))
    r = subprocess.run(["cargo", "+nightly", "test", "--doc", "--offline"], cwd=wdir, env=env, stdout=subprocess.PIPE, stderr=subprocess.STDOUT, text=True)
    out = []
    seen = {}
    for m in re.finditer(r"^test src/lib.rs - (\w+) \(line (\d+)\) - (compile fail|compile) \.\.\. (\w+)", r.stdout, re.M):
        name, line, kind, res = m.group(1), m.group(2), m.group(3), m.group(4)
        if name not in wanted:
            continue
        idx = seen.get((name, kind), 0)
        seen[(name, kind)] = idx + 1
        out.append({"key": "WITNESS|%s|%s#%d" % (name, kind.replace(" ", "-"), idx), "rule": "WITNESS", "status": "ok" if res == "ok" else "violated",
                    "desc": "compile-fail witness (external user code must be rejected by the type checker with the stated error code)" if kind == "compile fail" else "compiling twin of a witness (differs only in the offending line)",
                    "where": "witness/src/lib.rs:%s" % line, "detail": "", "config": "witness"})
    for w in wanted:
        if not any(o["key"].startswith("WITNESS|%s|" % w) for o in out):
            out.append({"key": "WITNESS|%s|missing" % w, "rule": "WITNESS", "status": "violated", "desc": "witness did not run", "where": "", "detail": r.stdout[-400:], "config": "witness"})
    return out


def load_known():
    p = os.path.join(VERIF, "known_findings.json")
    if not os.path.exists(p):
        return {"known": [], "fixed": []}
    with open(p) as f:
        return json.load(f)


def run_property(prop, tier, facts_path=None, repo=None, quiet=False, write_evidence=True, extra_cov=None):
    t0 = time.time()
    mod = importlib.import_module(prop.lower())
    configs = [("default", ())]
    if tier == "thorough":
        configs.append(("bench_testable", ("bench_testable",)))
    all_obl = []
    analysed_fns = set()
    notes = []
    for cname, feats in configs:
        if facts_path and cname == "default":
            fp = facts_path
            own = False
        else:
            fp = extract(repo, feats)
            own = True
        facts = core.Facts(fp)
        ctx = Ctx(prop, facts, tier, cname)
        try:
            mod.run(ctx)
        except AnchorMissing as e:
            ctx.bad("ANCHOR", "missing|%s" % e, "an anchor the rules rely on is missing (fail closed)", detail=str(e))
        except Exception as e:       # a construct the analysis does not understand: fail closed, as a reported obligation
            import traceback
            tb = traceback.extract_tb(e.__traceback__)
            site = "%s:%s" % (os.path.basename(tb[-1].filename), tb[-1].name) if tb else "?"
            ctx.bad("ANALYSIS", "analysis-error|%s|%s" % (site, type(e).__name__),
                    "the rule set could not analyse this tree (a construct outside what the rules model): the property is not shown to hold, reported as a violation rather than passed",
                    detail="".join(traceback.format_exception_only(type(e), e)).strip()[:300] + " @ " + " <- ".join("%s:%d" % (os.path.basename(f.filename), f.lineno) for f in tb[-3:][::-1]))
        all_obl += ctx.obligations
        analysed_fns |= ctx.analysed["functions"]
        notes += ctx.notes
        nfns = len(facts.fns)
        nnodes = len(facts.nodes)
        if own:
            os.remove(fp)
    # fixtures: positive controls for the rule kinds this property uses
    fixture_results = []
    if hasattr(mod, "fixtures"):
        import fixtures as fx
        fixture_results = fx.run_fixtures(mod, prop)
        for fr in fixture_results:
            all_obl.append({
                "key": "FIXTURE|%s" % fr["name"], "rule": "FIXTURE", "status": "ok" if fr["ok"] else "violated",
                "desc": "positive control: the rule must fire on deliberately broken fixture code",
                "where": fr.get("where", ""), "detail": fr.get("detail", ""), "config": "fixture",
            })
    if tier == "thorough" and getattr(mod, "WITNESSES", None) and not repo:
        all_obl += run_witnesses(mod.WITNESSES)
    known = load_known()
    known_keys = {k["key"]: k for k in known.get("known", []) if k["property"] == prop}
    violations = [o for o in all_obl if o["status"] == "violated"]
    new = [o for o in violations if o["key"] not in known_keys]
    listed = [o for o in violations if o["key"] in known_keys]
    wall = time.time() - t0
    replay = None
    if not quiet:
        for o in listed:
            print("KNOWN-FINDING: property=%s %s %s" % (prop, o["key"], known_keys[o["key"]].get("what", o["desc"])))
    if new:
        os.makedirs(os.path.join(WORK, "reports"), exist_ok=True)
        replay = os.path.join(WORK, "reports", "%s-%s.json" % (prop, uuid.uuid4().hex[:8]))
        with open(replay, "w") as f:
            json.dump({"property": prop, "violations": new}, f, indent=1)
        if not quiet:
            for o in new:
                print("  violated %s @ %s\n     %s\n     %s" % (o["key"], o["where"], o["desc"], o["detail"]))
            print("VIOLATION property=%s replay=%s" % (prop, replay))
    if write_evidence:
        write_ev(prop, tier, mod, all_obl, listed, new, analysed_fns, nfns, nnodes, notes, wall, fixture_results, configs, extra_cov)
    if not quiet:
        print("%s: %d obligations, %d discharged, %d known finding(s), %d new violation(s) [%.1fs]" % (
            prop, len(all_obl), len([o for o in all_obl if o["status"] == "ok"]), len(listed), len(new), wall))
    return all_obl, new, listed


def write_ev(prop, tier, mod, obl, listed, new, fns, nfns, nnodes, notes, wall, fixture_results, configs, extra_cov=None):
    level = getattr(mod, "LEVEL", "other")
    ok = [o for o in obl if o["status"] == "ok"]
    rules = sorted({o["rule"] for o in obl})
    samples = []
    seen_rules = set()
    for o in obl:
        if o["rule"] not in seen_rules:
            seen_rules.add(o["rule"])
            samples.append({k: o[k] for k in ("key", "desc", "status", "where", "detail")})
    cov = {
        "obligations": len(obl),
        "discharged": len(ok),
        "checker_cmd": "./check %s --tier %s" % (prop, tier),
        "trusted_base": getattr(mod, "TRUSTED", []) + [
            "rustc type checker / MIR construction / drop elaboration (nightly, -Zmir-opt-level=0)",
            "dependency models of DESIGN.md section 3.7 (dashmap 5.4, parking_lot 0.12, crossbeam-channel 0.5.7, std)",
        ],
        "explanation": getattr(mod, "EXPLANATION", ""),
        "rule": "one obligation per (rule, function, construct) instance found in /repo's MIR; distinct = distinct obligation keys; all are non-trivial (each names a concrete construct of the analysed crate)",
        "evaluations": len(obl),
        "distinct_nontrivial": len({o["key"] for o in obl}),
        "samples": samples[:25],
        "exhaustive": True,
        "rules_applied": rules,
        "functions_analysed": sorted(fns),
        "crate_functions_total": nfns,
        "instance_graph_nodes": nnodes,
        "configs": [c for c, _ in configs],
        "known_findings_reported": [o["key"] for o in listed],
        "new_violations": [o["key"] for o in new],
        "fixtures": fixture_results,
        "notes": notes,
        "obligation_list": [{"key": o["key"], "status": o["status"], "where": o["where"], "config": o["config"]} for o in obl],
    }
    if extra_cov:
        cov.update(extra_cov)
    ev = {
        "property_id": prop,
        "tier": tier,
        "seed": int(os.environ.get("VERIF_SEED", "0") or 0),
        "level": level if not (level == "proof" and len(ok) != len(obl)) else "other",
        "coverage": cov,
        "assumptions": getattr(mod, "ASSUMPTIONS", []),
        "wall_s": round(wall, 2),
        "violations": len(new),
    }
    os.makedirs(os.path.join(VERIF, "evidence"), exist_ok=True)
    tmp = os.path.join(VERIF, "evidence", ".%s.%s.tmp" % (prop, uuid.uuid4().hex[:6]))
    with open(tmp, "w") as f:
        json.dump(ev, f, indent=1)
    os.replace(tmp, os.path.join(VERIF, "evidence", "%s.json" % prop))


def main(argv):
    import argparse
    ap = argparse.ArgumentParser()
    ap.add_argument("prop")
    ap.add_argument("--tier", default=os.environ.get("VERIF_TIER") or "quick", choices=["quick", "thorough"])
    ap.add_argument("--facts", default=None, help="reuse an existing fact file (debugging only)")
    ap.add_argument("--repo", default=None)
    a = ap.parse_args(argv)
    extra = None
    if a.tier == "thorough":
        import mutants
        res = mutants.run_corpus(a.prop.upper())
        missed = [r["name"] for r in res if r["missed"]]
        extra = {"mutation_corpus": [{"mutant": r["name"], "status": r["status"][:120], "caught_by": r["caught"], "missed": r["missed"]} for r in res],
                 "mutants_run": len(res), "mutants_caught": len([r for r in res if r["caught"] and not r["missed"]])}
        for r in res:
            quiet_ok = not r["caught"] and not r["missed"] and r["status"] == "ok"
            print("mutant %-40s %s" % (r["name"], "caught" if (r["caught"] and not r["missed"] and r["status"] == "ok") else "quiet (negative control)" if quiet_ok else r["status"] if r["status"] != "ok" else "MISSED"))
        if missed:
            print("CHECKER-WEAKNESS: mutants not caught by %s: %s" % (a.prop.upper(), missed))
    # evidence describes /repo itself: a debugging run on a fact file or another tree never rewrites it
    obl, new, listed = run_property(a.prop.upper(), a.tier, a.facts, a.repo, extra_cov=extra, write_evidence=not (a.facts or a.repo))
    return 1 if new else 0
