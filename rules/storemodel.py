"""Discovery of the store-side vocabulary shared by several properties: which functions insert into / remove
from / look up the value store (lock class S), which are presence predicates, which apply the liveness filter."""
from core import (dashmap_call, strip_site, root_calls, bool_branches, same_value, subst_params, mentions,
                  subexprs, is_call_to, fmt)


class StoreModel:
    def __init__(self, ctx):
        self.ctx = ctx
        F = self.F = ctx.facts
        self.ops = {}            # method -> [(fn, bb, term)]
        for name, f in F.fns.items():
            for bb, t in f.calls():
                dc = dashmap_call(t)
                if dc and dc[1] == "S":
                    self.ops.setdefault(dc[0], []).append((f, bb, t))
        # the store's *entry points* that insert / remove: a private helper of the store type doing the map operation for
        # several of them (`insert_and_count`) is lifted to the functions of the same type that call it
        def lifted(names):
            out, seen = set(), set()
            work = list(names)
            while work:
                n = work.pop()
                if n in seen or n not in F.fns:
                    continue
                seen.add(n)
                f_ = F.fns[n]
                st_ = (f_.rec.get("self_ty") or "").split("<")[0]
                callers = {g.name for g in F.fns.values() for b_, t_ in g.calls() if t_.get("rpath") == n and t_["res"] == "item"}
                same = {c for c in callers if (F.fns[c].rec.get("self_ty") or "").split("<")[0] == st_ and F.fns[c].kind != "Closure"}
                if callers and same == callers and st_:
                    work += list(callers)
                else:
                    out.add(n)
            return out
        self.insert_fns = lifted({f.name for f, _, _ in self.ops.get("insert", [])})
        # by-key removals: `remove`, and the conditional `remove_if` / `remove_if_mut` (Some(..) iff an entry was taken out)
        self.remove_fns = lifted({f.name for m_ in ("remove", "remove_if", "remove_if_mut") for f, _, _ in self.ops.get(m_, [])})
        self.lookup_sites = [x for m in ("get", "get_mut", "contains_key") for x in self.ops.get(m, [])]
        # presence predicates: bool functions with one store lookup keyed by a parameter, judged on path-sensitive paths
        # (combinators, `matches!` with a guard, explicit branches alike):
        #   physical  : the answer is exactly "the lookup found an entry"
        #   filtered  : the answer implies an entry was found, but some found entries are answered false (liveness ..)
        from sym import ipaths, bool_outcomes
        self.presence_fns = {}
        self.filtered_presence_fns = {}
        for f, bb, t in self.lookup_sites:
            if f.rec.get("ret") != "bool" or f.kind == "Closure":
                continue
            k = f.op_origin(t["args"][1])
            if k[0] != "param":
                continue
            meth = dashmap_call(t)[0]
            rows = set()
            okp = True
            for p in ipaths(F, f, stop=lambda n: False, depth=2):
                L = [e for e in p.events if e.fn is f and e.bb == bb]
                if not L:
                    okp = False
                    continue
                for atoms, result in bool_outcomes(p):
                    if meth == "contains_key":
                        fa = [a for a in atoms if a[0] == "bool" and strip_site(a[1]) == strip_site(L[0].res)]
                        found = fa[0][2] if fa else None
                    else:
                        q = type(p)(p.fn, p.blocks, atoms, p.events, p.stores, p.ret, p.trace)
                        v = q.variant_of(L[0].res)
                        found = True if v == ("Some",) else (False if v == ("None",) else None)
                    rows.add((found, result))
            if not okp or not rows or any(fd is None for fd, r_ in rows):
                continue
            if any(r_ and not fd for fd, r_ in rows):
                continue            # answers true without an entry: not a presence predicate
            if (True, False) in rows:
                self.filtered_presence_fns[f.name] = k[1]
            elif (True, True) in rows:
                self.presence_fns[f.name] = k[1]

        # readable predicates: bool functions that are `is_some()` of a liveness-filtered lookup function of the store
        self.readable_fns = {}
        lookup_fns = {f.name for f, bb, t in self.lookup_sites if f.rec.get("ret", "").startswith("std::option::Option<")}
        for name, f in F.fns.items():
            if f.rec.get("ret") != "bool" or name in self.presence_fns:
                continue
            r = f.origin_local(0)
            if r[0] == "call" and r[1].endswith("Option::<T>::is_some") and r[2] and r[2][0][0] == "call" and r[2][0][1] in lookup_fns:
                inner = r[2][0]
                ks = [i for i, a in enumerate(inner[2]) if a[0] == "param" and a[1] >= 2]
                if ks:
                    self.readable_fns[name] = inner[2][ks[0]][1]

    def callers(self, fname):
        out = []
        for name, f in self.F.fns.items():
            for bb, t in f.calls():
                if t.get("rpath") == fname and t["res"] == "item":
                    out.append((f, bb, t))
        return out

    def absence_edges(self, fn, key, readable_too=False):
        """edges of fn after which `key` was observed absent from the store by a presence predicate
        (physically absent; with readable_too also 'not readable' predicates count)"""
        out = []
        preds = dict(self.presence_fns)
        if readable_too:
            preds.update(self.readable_fns)
            preds.update(self.filtered_presence_fns)
        for b, expr, tt, ft in bool_branches(fn):
            neg = False
            e = expr
            if e[0] == "unop" and e[1] == "Not":
                e, neg = e[2], True
            if e[0] == "call" and e[1] in preds:
                kp = preds[e[1]]
                karg = e[2][kp - 1]
                if same_value(karg, key):
                    out.append((b, tt if neg else ft))
        return out

    # ---- functions that unconditionally remove a key from the store ------------------------------------------
    def removed_keys(self, g, depth=0):
        """key expressions (over g's parameters) that g removes from the store on every path (directly or through
        local calls): after g returns such a key is physically absent"""
        if not hasattr(self, "_removed"):
            self._removed = {}
        if g.name in self._removed:
            return self._removed[g.name]
        self._removed[g.name] = []
        out = []
        if depth < 5 and g.kind != "Closure":
            for bb, t in g.calls():
                if not g.must_pass([0], [bb]):
                    continue
                dc = dashmap_call(t)
                if dc == ("remove", "S"):
                    out.append(g.op_origin(t["args"][1]))
                elif t["res"] == "item" and t.get("rpath") in self.F.fns and t.get("rpath") != g.name:
                    h = self.F.fns[t["rpath"]]
                    args = [g.op_origin(a) for a in t["args"]]
                    for k in self.removed_keys(h, depth + 1):
                        out.append(subst_params(k, args))
        out = [k for k in out if not mentions(k, lambda s: s[0] in ("var", "unknown", "built", "env"))]
        self._removed[g.name] = out
        return out

    def retire_sites(self, fn, key):
        """blocks of fn whose call unconditionally removes `key` from the store"""
        out = []
        for bb, t in fn.calls():
            if t["res"] == "item" and t.get("rpath") in self.F.fns:
                h = self.F.fns[t["rpath"]]
                args = [fn.op_origin(a) for a in t["args"]]
                for k in self.removed_keys(h):
                    if same_value(subst_params(k, args), key):
                        out.append(bb)
            if dashmap_call(t) == ("remove", "S") and same_value(fn.op_origin(t["args"][1]), key):
                out.append(bb)
        return out

    def absence_guarded(self, fn, C, key, depth=0):
        # (a) the key was just removed on this thread: every path to C passes a call that unconditionally removes it
        rs = [b for b in self.retire_sites(fn, key) if b != C]
        if rs and fn.must_pass([0], rs, targets=[C]):
            between = []
            for r in rs:
                for b in fn.reach(fn.succs(r), avoid_blocks=[C]):
                    t = fn.term(b)
                    if t["k"] == "call" and t.get("rpath") in self.insert_fns and C in fn.reach_after(b):
                        between.append(b)
            if not between:
                return True, "any previous entry of the key is removed (and released) on this thread before the insert, in %s" % fn.name
        edges = self.absence_edges(fn, key)
        if edges and C not in fn.reach([0], avoid_edges=edges):
            # no store insert between the check and C
            for (s, d) in edges:
                R = fn.reach([d], avoid_blocks=[C])
                for b in R:
                    t = fn.term(b)
                    if t["k"] == "call" and t.get("rpath") in self.insert_fns and C in fn.reach_after(b):
                        return False, "another store insert lies between the absence check and the insert in %s" % fn.name
            return True, "absence of the key checked in %s" % fn.name
        only_params = not mentions(key, lambda s: s[0] in ("var", "unknown", "env", "upvar", "built", "phi") or (s[0] == "call" and s[1] != "clone"))
        if only_params and depth < 6:
            cs = self.callers(fn.name)
            if not cs:
                return False, "reached %s without a same-thread absence check for the inserted key" % fn.name
            for g, bb, t in cs:
                args = [g.op_origin(a) for a in t["args"]]
                ok, why = self.absence_guarded(g, bb, subst_params(key, args), depth + 1)
                if not ok:
                    return False, why
            return True, "absence checked in every caller of %s" % fn.name
        return False, "no same-thread absence check for key %s before the insert in %s" % (fmt(key), fn.name)


    def absence_guarded_sym(self, g, is_site, key_of, depth=0):
        """path-sensitive form of `absence_guarded`, helpers inlined (sym.py): on every path of g that reaches an insert
        site, the inserted key was observed physically absent by a presence predicate, or removed by key, earlier on the
        same path with no other store insert in between; a path that shows neither defers to every caller of g."""
        from sym import ipaths, focus
        F = self.F
        stops = (set(self.presence_fns) | set(self.remove_fns) | set(self.insert_fns)) - {g.name}
        paths = ipaths(F, g, stop=focus(F, stops), depth=3)
        open_keys = []
        n_sites = 0
        for p in paths:
            for e in p.events:
                if not is_site(e):
                    continue
                n_sites += 1
                key = key_of(e)
                anchors = [a[4] for a in p.atoms if a[0] == "bool" and a[1][0] == "call" and a[1][1] in self.presence_fns and a[2] is False
                           and a[4] < e.seq and same_value(a[1][2][self.presence_fns[a[1][1]] - 1], key)]
                for x in p.events:
                    if x.seq < e.seq and ((x.callee in self.remove_fns and any(same_value(a, key) for a in x.args[1:])) or
                                          (dashmap_call(x.t) == ("remove", "S") and same_value(x.args[1], key))):
                        anchors.append(x.seq)
                if anchors:
                    a0 = max(anchors)
                    between = [x for x in p.events if a0 < x.seq < e.seq and (x.callee in self.insert_fns or dashmap_call(x.t) == ("insert", "S"))]
                    if between:
                        return False, "another store insert lies between the absence check and the insert in %s" % g.name
                    continue
                if not any(strip_site(key) == strip_site(k) for k in open_keys):
                    open_keys.append(key)
        if n_sites == 0:
            return False, "insert site not found on the paths of %s" % g.name
        if not open_keys:
            return True, "absence of the key established in %s" % g.name
        for key in open_keys:
            only_params = not mentions(key, lambda s: s[0] in ("var", "unknown", "env", "upvar", "built", "phi") or (s[0] == "call" and s[1] != "clone"))
            if not only_params or depth >= 6:
                return False, "no same-thread absence check for key %s before the insert in %s" % (fmt(key), g.name)
            cs = self.callers(g.name)
            if not cs:
                return False, "reached %s without a same-thread absence check for the inserted key" % g.name
            for h in {c[0].name: c[0] for c in cs}.values():
                ok, why = self.absence_guarded_sym(h, lambda e, gn=g.name: e.callee == gn, lambda e, k=key: subst_params(k, list(e.args)), depth + 1)
                if not ok:
                    return False, why
        return True, "absence established in every caller of %s" % g.name


def local_uses(fn, l):
    """(bb, where) of reads of local l other than its drop / storage markers"""
    uses = []

    def in_place(p):
        if p["l"] == l:
            return True
        return any(isinstance(e, dict) and e.get("index") == l for e in p["p"])

    def in_op(o):
        return o["k"] in ("copy", "move") and in_place(o["place"])

    for b in sorted(fn.live_blocks()):
        for i, s in enumerate(fn.blocks[b]["stmts"]):
            if s["k"] != "assign":
                continue
            rv = s["rv"]
            hit = False
            for key in ("op", "a", "b"):
                if key in rv and isinstance(rv[key], dict) and in_op(rv[key]):
                    hit = True
            if rv["k"] in ("ref", "rawptr", "discr") and in_place(rv["place"]):
                hit = True
            if rv["k"] == "agg" and any(in_op(o) for o in rv["ops"]):
                hit = True
            if hit:
                uses.append((b, i))
        t = fn.term(b)
        if t["k"] == "call" and any(in_op(a) for a in t["args"]):
            uses.append((b, None))
        if t["k"] == "switch" and in_op(t["discr"]):
            uses.append((b, None))
    return uses
