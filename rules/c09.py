"""C09 — expired values are never served.  (DESIGN §4 C09)"""
from core import (enum_paths, path_atoms, path_return, strip_site, fmt, is_call_to, mentions, subexprs, deep_trace,
                  peel_identity, root_calls, closure_captures, bool_branch, inline_ctor)
from livemodel import LiveModel, rooted_in_param
from storemodel import StoreModel

LEVEL = "other"
EXPLANATION = ("Decision table of the liveness predicate over (soft-deleted, expiry None/Some, clock.has_passed), "
               "strictness of the default has_passed, expiry = config clock now + ttl at every site that stores an "
               "expiry, identity of the reader's and the sweeper's clock with the configured one, every "
               "value-returning store lookup filtered by the predicate on the same entry guard, and agreement of "
               "the reader's and sweeper's boundary. Time arithmetic itself and user clocks overriding has_passed "
               "are not decided.")
ASSUMPTIONS = ["SystemTime ordering/addition behave as documented", "the configured Clock is monotone enough for the caller's purposes"]


def closures_rec(F, f):
    out = []
    for c in F.closures_of(f):
        out.append(c)
        out += closures_rec(F, c)
    return out


def resolve_env(F, g, e):
    """a closure's captured value expressed in its parent's terms (one level per enclosing closure)"""
    from core import closure_captures, project
    for _ in range(3):
        if g.kind != "Closure" or not mentions(e, lambda s_: s_ == ("env",)):
            return e
        cc = closure_captures(F, g.name)
        if not cc:
            return e
        parent, caps = cc

        def sub(x):
            if not isinstance(x, tuple) or not x:
                return x
            if x[0] == "field" and x[1] == ("env",):
                return caps.get(x[2], x)
            if x[0] == "param":
                return ("cparam", g.name, x[1])
            return tuple(sub(y) if isinstance(y, tuple) else y for y in x)
        e = sub(e)
        g = parent
    return e


def loop_carried_from(f, e, src):
    """e is a loop variable (var/phi) of f one of whose definitions is derived from src"""
    for s_ in subexprs(e):
        if s_[0] == "var":
            o = f.origin_local(s_[1])
            if mentions(o, lambda z: z == src):
                return True
        if s_[0] == "phi" and any(mentions(x, lambda z: z == src) for x in s_[1]):
            return True
    return False


def run(ctx):
    F = ctx.facts
    L = LiveModel(ctx)
    S = StoreModel(ctx)
    if not L.sv or not L.alive_fns:
        ctx.bad("R09.0", "liveness-anchor", "stored-entry type / liveness predicate not found", detail="ANCHOR-MISSING")
        return
    # ---- R09.9 one notion of "readable": the soft-delete flag is consulted only by the liveness predicate (and the private
    # helpers only it calls).  A second reader - `is_dead_at(now)` with its own boundary, a conditional removal's predicate -
    # is a second definition of liveness that the decision table of R09.1 does not cover.
    sv_adt = F.adts[L.sv]
    soft_idx = [i for i, fl in enumerate(sv_adt["variants"][0]["fields"]) if fl["name"] == L.SOFT][0]

    def reads_soft(g):
        def in_place(pl):
            return any(isinstance(e, dict) and e.get("f") == L.SOFT and e.get("i", soft_idx) == soft_idx for e in pl["p"])
        for b in g.live_blocks():
            for st in g.blocks[b]["stmts"]:
                if st["k"] != "assign":
                    continue
                rv = st["rv"]
                ops = [rv[k] for k in ("op", "a", "b") if isinstance(rv.get(k), dict)] + list(rv.get("ops") or [])
                pls = [o["place"] for o in ops if isinstance(o, dict) and o.get("k") in ("copy", "move")]
                if rv["k"] in ("ref", "discr"):
                    pls.append(rv["place"])
                if any(in_place(pl) for pl in pls):
                    return True
            t = g.term(b)
            if t["k"] == "switch" and t["discr"].get("k") in ("copy", "move") and in_place(t["discr"]["place"]):
                return True
        return False
    readers = {n for n, g in F.fns.items() if reads_soft(g)}
    allowed = set(L.alive_fns)
    changed = True
    while changed:
        changed = False
        for n in sorted(readers - allowed):
            g = F.fns[n]
            callers = {h.name for h in F.fns.values() for b, t in h.calls() if t.get("rpath") == n and t["res"] == "item"}
            if g.kind == "Closure":
                callers.add(F.parent_fn(g).name)
            if callers and callers <= allowed:
                allowed.add(n)
                changed = True
    for n in sorted(readers):
        ctx.check(n in allowed, "R09.9", "%s|soft-delete-flag-read-only-by-liveness" % n,
                  "the soft-delete flag is consulted only by the liveness predicate (or a private helper only it uses): every decision about an entry being readable goes through the one predicate whose table R09.1 checks",
                  F.fns[n].where())
    ctx.floor("R09.9", "readers of the soft-delete flag", len(readers), 1)
    # ---- R09.1 decision table ------------------------------------------------------------------
    for an in sorted(L.alive_fns):
        f = F.fn(an)
        ctx.touch(f)
        rows, bad = L.alive_table(f)
        ctx.analysed["paths"] += len(rows)
        need = {(True, False), (False, True)}
        have = {(r[0], r[3]) for r in rows if r[0] is not None}
        kinds = {("none" if r[1] == ("None",) else "some") for r in rows if r[0] is False and r[1]}
        ctx.check(not bad and need <= have and kinds == {"none", "some"}, "R09.1", "%s|liveness-table" % an,
                  "alive <=> not soft-deleted and (no expiry or !clock.has_passed(that expiry)), on every symbolic path with helpers and combinators inlined (%d rows)" % len(rows),
                  f.where(), "; ".join(sorted(set(bad))) or str(rows))
    # ---- R09.2 default has_passed strict -----------------------------------------------------------
    hp = [f for n, f in F.fns.items() if n.endswith("Clock::has_passed")]
    ctx.floor("R09.2", "default has_passed", len(hp), 1)
    for f in hp:
        r = f.origin_local(0)
        le = r[2] if r[0] == "unop" and r[1] == "Not" else None
        ok = (le is not None and le[0] == "call" and le[1].endswith("PartialOrd::le") and is_call_to(le[2][0], "Clock::now") and le[2][0][2][0] == ("param", 1) and le[2][1] == ("param", 2))
        ctx.check(ok, "R09.2", "%s|strictly-after" % f.name, "the default has_passed(t) is now() > t (an entry is still served at its exact expiry instant)", f.where(), fmt(r))
    # ---- R09.3 expiry = clock.now() + ttl ----------------------------------------------------------
    calc = []
    for n, f in F.fns.items():
        if f.kind == "Closure" or f.rec.get("ret") != "std::time::SystemTime":
            continue
        dur = [i for i in range(1, f.argc + 1) if f.locals[i]["ty"].endswith("std::time::Duration")]
        clk = [i for i in range(1, f.argc + 1) if "Clock" in f.locals[i]["ty"]]
        body = [f] + closures_rec(F, f)
        if not dur or not clk or not any(g.calls_to("Clock::now") for g in body):
            continue
        # a step of the computation extracted into a private helper (`ttl.expiry_from(now)`, `ttl.halved()`) is the
        # computation's own
        import inline
        f_orig = f
        f = inline.expand(F, f, lambda n_: "Clock" in n_)
        body = [f] + closures_rec(F, f_orig)
        calc.append(f_orig)
        # (a) every time source is the given clock's now(); (b) the deadline is that now plus something made of the
        # given time-to-live (directly, or an element of an iterator built from it: halving until the sum fits)
        bad = []
        adds = 0
        for g in body:
            for b, t in g.calls():
                c = t["callee"]
                if "SystemTime::now" in c or "UNIX_EPOCH" in c or "Instant::now" in c:
                    bad.append("reads a time source of its own: %s" % c.split("::")[-1])
                if "Clock::now" in c:
                    recv = resolve_env(F, g, g.op_origin(t["args"][0]))
                    if not rooted_in_param(recv, clk[0]):
                        bad.append("now() is asked of something else than the given clock: %s" % fmt(recv))
                if ("ops::Add" in c and "SystemTime" in (t.get("rpath") or "")) or "SystemTime::checked_add" in c:
                    adds += 1
                    a0 = resolve_env(F, g, g.op_origin(t["args"][0]))
                    a1 = resolve_env(F, g, g.op_origin(t["args"][1]))
                    if not is_call_to(a0, "Clock::now"):
                        bad.append("the deadline is not based on clock.now(): %s" % fmt(a0))
                    from_ttl = mentions(a1, lambda s_: s_ == ("param", dur[0]) and g is f) or \
                        (g is not f and (mentions(a1, lambda s_: s_[0] in ("param", "cparam")) or mentions(a1, lambda s_: s_ == ("param", dur[0])))) or \
                        mentions(a1, lambda s_: s_[0] in ("var", "phi") and any(mentions(d_, lambda z: z == ("param", dur[0])) for d_ in ([s_] if s_[0] == "phi" else [])))
                    if not from_ttl and not loop_carried_from(f, a1, ("param", dur[0])):
                        bad.append("the amount added is not derived from the given time-to-live: %s" % fmt(a1))
        uses_ttl = any(mentions(g.op_origin(a), lambda s_: s_ == ("param", dur[0])) for g in [f] for b, t in g.calls() for a in t["args"]) or \
            any(mentions(f.origin_rvalue(st["rv"]), lambda s_: s_ == ("param", dur[0])) for b in f.live_blocks() for st in f.blocks[b]["stmts"] if st["k"] == "assign")
        ctx.check(not bad and adds == 1 and uses_ttl, "R09.3", "%s|now-plus-ttl" % n,
                  "expiry is computed as the given clock's now() plus (a value derived from) the given time-to-live; no other time source is read", f.where(), "; ".join(bad) or "adds=%d" % adds)
    ctx.floor("R09.3", "expiry computations", len(calc), 1)
    calc_names = {f.name for f in calc}
    sv_short = L.sv.split("::")[-1]
    n_sites = 0
    for n, f in F.fns.items():
        # aggregates of the stored-entry type
        for b in sorted(f.live_blocks()):
            for i, s in enumerate(f.blocks[b]["stmts"]):
                if s["k"] == "assign" and s["rv"]["k"] == "agg" and s["rv"].get("adt") == L.sv:
                    e0 = dict(f.origin_rvalue(s["rv"])[3])[L.EXP]
                    # a shared private constructor taking the expiry as a parameter is judged at each of its call sites
                    insts = [(f, n, e0, f.where(b, i))]
                    if e0[0] == "param" and f.kind != "Closure":
                        insts = []
                        for g_, gb_, gt_ in [(g_, gb_, gt_) for n2_, g_ in F.fns.items() for gb_, gt_ in g_.calls() if gt_.get("rpath") == n and gt_["res"] == "item"]:
                            insts.append((g_, g_.name, g_.op_origin(gt_["args"][e0[1] - 1]), g_.where(gb_)))
                    for g_, gn_, e, where_ in insts:
                        n_sites += 1
                        if e[0] == "agg" and e[2] == "None":
                            ctx.ok("R09.3", "%s|ctor-no-expiry" % gn_, "constructor stores no expiry", where_)
                        else:
                            inner = e[3][0][1] if e[0] == "agg" and e[2] == "Some" else None
                            ok = inner is not None and inner[0] == "call" and inner[1] in calc_names and all(a[0] == "param" for a in inner[2])
                            ctx.check(ok, "R09.3", "%s|ctor-expiry-from-ttl" % gn_, "constructor stores Some(clock.now() + ttl) built from its own ttl and clock parameters", where_, fmt(e))
        # field writes of the expiry
        if f.argc >= 1 and sv_short in f.locals[1]["ty"]:
            raw = [(b, i) for (b, i, tgt, rv, st) in f.stores() if tgt == ("field", ("param", 1), L.EXP)]
            if raw and f.kind != "Closure":
                # every value the expiry can take on a path (combinators and closures run by sym.py): cleared, kept, or
                # Some(computed expiry)
                from sym import ipaths, noop_store
                n_sites += len(raw)
                badw = []
                n_w = 0
                for p_ in ipaths(F, f, stop=lambda x: x in calc_names, depth=2):
                    for tgt, rv, w_ in p_.stores:
                        if tgt != ("field", ("param", 1), L.EXP) or noop_store(p_, tgt, rv):
                            continue
                        n_w += 1
                        if rv[0] == "agg" and rv[2] == "None":
                            continue
                        inner = rv[3][0][1] if rv[0] == "agg" and rv[2] == "Some" else None
                        if not (inner is not None and inner[0] == "call" and inner[1] in calc_names):
                            badw.append(fmt(rv)[:120])
                ctx.check(not badw and n_w >= 1, "R09.3", "%s|write-expiry-from-ttl" % n, "a rewritten expiry is None (cleared) or Some(clock.now() + the requested ttl)", f.where(raw[0][0], raw[0][1]), "; ".join(sorted(set(badw))[:3]))
    ctx.floor("R09.3", "sites storing an expiry", n_sites, 2)
    # ---- R09.4 clock identity --------------------------------------------------------------------------
    def is_config_clock(g, x):
        if not (isinstance(x, tuple) and x and x[0] == "field" and x[2] == "clock"):
            return False
        base = x[1]
        while base[0] in ("field", "variant"):
            base = base[1]
        if base[0] == "param":
            ty = g.locals[base[1]]["ty"]
            return "cache::config::Config<" in ty
        return False
    n_clock = 0
    for an in sorted(L.alive_fns):
        af = F.fn(an)
        cis = [i for i in range(1, af.argc + 1) if "Clock" in af.locals[i]["ty"]]
        if not cis:
            continue        # a wrapper without a clock parameter: the clock is chosen at the call it forwards to
        for g, bb, t in [(g, bb, t) for n, g in F.fns.items() for bb, t in g.calls() if t.get("rpath") == an]:
            clk = g.op_origin(t["args"][cis[0] - 1])
            n_clock += 1
            ok = deep_trace(F, g, clk, is_config_clock)
            ctx.check(ok, "R09.4", "%s|reader-clock-is-config-clock" % g.name, "the clock used to judge liveness on reads is (a clone of) the configured clock", g.where(bb), fmt(clk))
    for cn in calc_names:
        for g, bb, t in [(g, bb, t) for n, g in F.fns.items() for bb, t in g.calls() if t.get("rpath") == cn]:
            clk = [g.op_origin(a) for a in t["args"] if "Clock" in g.locals[a["place"]["l"]]["ty"]] if all(a["k"] != "const" for a in t["args"]) else []
            for c in clk:
                n_clock += 1
                ctx.check(deep_trace(F, g, c, is_config_clock), "R09.4", "%s|expiry-clock-is-config-clock" % g.name,
                          "expiry deadlines are computed with (a clone of) the configured clock", g.where(bb), fmt(c))
    spawn = F.spawn_closures()
    for cdef in spawn:
        c = F.fn(cdef)
        for bb, t in c.calls_to("Clock::now"):
            clk = c.op_origin(t["args"][0])
            n_clock += 1
            ctx.check(deep_trace(F, c, clk, is_config_clock), "R09.4", "%s|sweeper-clock-is-config-clock" % cdef,
                      "the sweeper reads the time from (a clone of) the configured clock", c.where(bb), fmt(clk))
    ctx.floor("R09.4", "clock uses traced to the configuration", n_clock, 3)
    # ---- R09.5 value-returning lookups are filtered --------------------------------------------------------
    n_read = 0
    for f, bb, t in S.lookup_sites:
        ret = f.rec.get("ret", "")
        if not ret.startswith("std::option::Option<"):
            continue
        n_read += 1
        ctx.touch(f)
        ok, form = L.lookup_applies_liveness(f, bb, t)
        ctx.check(ok, "R09.5", "%s|read-filters-on-liveness" % f.name,
                  "a store lookup that returns the entry's value applies is_alive to the same entry (under the same shard guard) before returning it", f.where(bb), form)
    ctx.floor("R09.5", "value-returning store lookups", n_read, 1)
    no_overwrite(ctx, "R09.7")
    # ---- R09.8 a TTL added, changed or removed by an upsert reaches the expiry index (shared with C08 R08.3/R08.8):
    #      otherwise the sweeper later acts on the old deadline and hides a key that is not expired
    import c08
    for o in ctx.own_of("c08"):
        if o["rule"] == "R08.3" and "classification-drives-index" in o["key"]:
            ctx._add(o["status"], "R09.8", o["key"].split("|", 1)[1], o["desc"], o["where"], o["detail"])
    for o in ctx.own_of("c10"):
        if o["rule"] == "R10.1" and any(x in o["key"] for x in ("move-old-to-new", "insert-under-own-expiry", "shard-from-expiry")):
            ctx._add(o["status"], "R09.8", o["key"].split("|", 1)[1], o["desc"], o["where"], o["detail"])

    # ---- R09.10 (= C10 R10.4, C08 R08.10) a deadline filed for an earlier incarnation of a key goes when that incarnation
    # goes: an entry removed outside the handlers that unregister its (id, expiry) pair leaves a stale deadline behind, and
    # the sweep of that deadline removes - by key - the value written later, before *its* expiry (or although it has none)
    for o in ctx.own_of("c10"):
        if o["rule"] == "R10.4" and "unregister-iff-had-expiry" in o["key"]:
            ctx._add(o["status"], "R09.10", o["key"].split("|", 1)[1], o["desc"], o["where"], o["detail"])
    for o in ctx.own_of("c08"):
        if o["rule"] == "R08.10":
            ctx._add(o["status"], "R09.10", o["key"].split("|", 1)[1], o["desc"], o["where"], o["detail"])

    # ---- R09.6 boundary agreement --------------------------------------------------------------------------
    from tickermodel import TickerModel
    from c10 import retain_table
    T = TickerModel(ctx)
    sweeps = [(F.fn(o["args"][0][1]), o["args"][0]) for o in T.ops if o["kind"] == "retain" and o["args"][0][0] == "agg" and F.fn(o["args"][0][1]) is not None]
    ctx.floor("R09.6", "sweeper retain predicates", len(sweeps), 1)
    for f, agg in sweeps:
        rows, bad, nowcap = retain_table(F, f)
        bad = [b_ for b_ in bad if "hook" not in b_]
        ctx.check(not bad and {r_[0] for r_ in rows} == {True, False}, "R09.6", "%s|retain-iff-now-le-expiry" % f.name,
                  "the sweeper keeps an entry iff now <= expiry, i.e. evicts iff now > expiry: the same boundary as has_passed", f.where(), "; ".join(sorted(set(bad))[:3]))
        # the captured `now`, in the terms of the sweeping thread (helpers between the thread loop and the retain inlined)
        nowe = dict(agg[3]).get(nowcap or "now")
        ctx.check(nowe is not None and is_call_to(nowe, "Clock::now"), "R09.6", "%s|now-is-clock-now" % f.name,
                  "the sweeper's `now` is read from the clock once per sweep", f.where(), fmt(nowe) if nowe else "")


def no_overwrite(ctx, RULE):
    """hooks remove store entries by key: that hits the right incarnation only if a store insert never overwrites
    an existing entry (C05 R05.3)"""
    import c05
    for o in ctx.own_of("c05"):
        if o["rule"] == "R05.3":
            ctx._add(o["status"], RULE, o["key"].split("|", 1)[1],
                     o["desc"] + " [needed here because the eviction/expiry hooks remove the store entry by key: an overwritten entry would make a stale id remove a newer incarnation]", o["where"], o["detail"])
