def run_corpus(prop):
    return []
