"""Mutation corpus: sensitivity tests of the *checker* (never of the cache).

A mutant is a JSON file mutants/<name>.json:
  {"desc": "...", "expect": ["C11", ...], "edits": [{"file": "src/...", "old": "...", "new": "..."}]}
It is applied to a scratch copy of /repo's current working tree under /verif/.work/scratch, the driver
is run on the copy, and the rule modules of the expected properties must report a violation that is
not a listed known finding. Edits whose `old` text is no longer present are reported as skipped.
"""
import glob
import json
import os
import shutil
import subprocess
import sys
import uuid
from concurrent.futures import ProcessPoolExecutor

import engine

MUT_DIR = os.path.join(engine.VERIF, "mutants")
ALL_PROPS = ["C%02d" % i for i in range(1, 19)]


def load(name_or_path):
    p = name_or_path if os.path.exists(name_or_path) else os.path.join(MUT_DIR, name_or_path + ".json")
    with open(p) as f:
        m = json.load(f)
    m["name"] = os.path.splitext(os.path.basename(p))[0]
    return m


def make_scratch(m, repo=None):
    repo = repo or engine.REPO
    d = os.path.join(engine.WORK, "scratch", "%s-%s" % (m["name"], uuid.uuid4().hex[:6]))
    os.makedirs(os.path.dirname(d), exist_ok=True)
    subprocess.check_call(["rsync", "-a", "--exclude", "target", "--exclude", ".git", repo + "/", d + "/"])
    for e in m["edits"]:
        p = os.path.join(d, e["file"])
        with open(p) as f:
            s = f.read()
        if e["old"] not in s:
            shutil.rmtree(d, ignore_errors=True)
            return None
        s = s.replace(e["old"], e["new"], e.get("count", 1))
        with open(p, "w") as f:
            f.write(s)
    return d


def run_mutant(m, props=None):
    """returns dict(name, status, caught={prop: [keys]}, missed=[props])"""
    props = props or (list(m.get("expect") or []) + list(m.get("quiet") or [])) or ALL_PROPS
    d = make_scratch(m)
    if d is None:
        return {"name": m["name"], "status": "skipped (edit no longer applies)", "caught": {}, "missed": []}
    try:
        try:
            fp = subprocess.run([sys.executable, "-c",
                                 "import sys; sys.path.insert(0, %r); import engine; print(engine.extract(%r))" % (os.path.join(engine.VERIF, "rules"), d)],
                                stdout=subprocess.PIPE, stderr=subprocess.STDOUT, text=True)
            if fp.returncode != 0:
                return {"name": m["name"], "status": "does not compile: " + fp.stdout[-600:], "caught": {}, "missed": []}
            facts = fp.stdout.strip().splitlines()[-1]
        except Exception as e:  # pragma: no cover
            return {"name": m["name"], "status": "error %s" % e, "caught": {}, "missed": []}
        caught, missed, false_alarms = {}, [], []
        for p in props:
            modname = p.lower()
            if not os.path.exists(os.path.join(engine.VERIF, "rules", modname + ".py")):
                continue
            obl, new, listed = engine.run_property(p, "quick", facts_path=facts, quiet=True, write_evidence=False)
            if new:
                caught[p] = [o["key"] for o in new]
                if p in (m.get("quiet") or []):
                    false_alarms.append(p)
            elif p in (m.get("expect") or []):
                missed.append(p)
        os.remove(facts)
        return {"name": m["name"], "status": "ok" if not false_alarms else "FALSE-ALARM %s" % false_alarms, "caught": caught, "missed": missed, "false_alarms": false_alarms}
    finally:
        shutil.rmtree(d, ignore_errors=True)


def _run_one(arg):
    return run_mutant(arg[0], arg[1])


def corpus():
    return [load(p) for p in sorted(glob.glob(os.path.join(MUT_DIR, "*.json")))]


def run_corpus(prop):
    """thorough tier: every mutant expecting `prop` must be caught by prop's rules"""
    ms = [m for m in corpus() if prop in (m.get("expect") or []) or prop in (m.get("quiet") or [])]
    results = []
    with ProcessPoolExecutor(max_workers=12) as ex:
        for r in ex.map(_run_one, [(m, [prop]) for m in ms]):
            results.append(r)
    return results


if __name__ == "__main__":
    # usage: mutants.py <name|all> [props...]
    names = sys.argv[1]
    props = sys.argv[2:] or None
    if props == ["ALL"]:
        props = list(ALL_PROPS)
    as_json = None
    if props and props[-1].endswith(".json"):
        as_json = props.pop()
        props = props or None
        if props == ["ALL"]:
            props = list(ALL_PROPS)
    ms = corpus() if names == "all" else [load(n) for n in names.split(",")]
    results_all = []
    with ProcessPoolExecutor(max_workers=14) as ex:
        for r in ex.map(_run_one, [(m, props if props else (ALL_PROPS if names != "all" else None)) for m in ms]):
            print("%-40s %s caught=%s missed=%s" % (r["name"], r["status"][:200], {k: len(v) for k, v in r["caught"].items()}, r["missed"]))
            for k, v in r["caught"].items():
                for key in v[:4]:
                    print("      %s %s" % (k, key))
            results_all.append(r)
    if as_json:
        json.dump(results_all, open(as_json, "w"), indent=1)
