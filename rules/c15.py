"""C15 — every hit is accounted exactly once; reads never wait for the counting pipeline.  (DESIGN §4 C15)"""
from core import (enum_paths, path_atoms, path_calls, path_return, ret_variant, site_effects, strip_site, same_value,
                  fmt, variant_edges, mentions, is_call_to, subexprs, root_calls, unclone)
from statsmodel import StatsModel

from sym import ipaths
from core import reaches_call

LEVEL = "proof"
EXPLANATION = ("Counting rules on all MIR paths: a read API records exactly one access iff it returns a value; the "
               "buffer pushes exactly once per access, clears only after handing a clone of the same vector "
               "over and is touched mutably by nothing else (it only grows between hand-overs); the hand-over accounts each full buffer exactly once as added (only if the non-blocking send "
               "succeeded) or dropped; the consumer applies each received buffer exactly once; no read API can "
               "reach a blocking channel operation or the sketch lock.")
ASSUMPTIONS = ["crossbeam select! with a default arm lowers to try_select (non-blocking)"]


def _zero_amount(a):
    while isinstance(a, tuple) and a and a[0] == "cast":
        a = a[1]
    return isinstance(a, tuple) and a and a[0] == "const" and a[1] == 0


def run(ctx):
    F = ctx.facts
    SM = StatsModel(ctx)
    eff = F.effects()

    # read APIs: public methods of the cache type that do not return a send result, plus its iterators
    import c13
    ca = c13.cache_adt(F)
    if not ca:
        ctx.bad("R15.0", "cache-adt", "cache type not found", detail="ANCHOR-MISSING")
        return
    cname = ca[0]
    reads = []
    for name, f in F.fns.items():
        if not f.rec.get("reachable") or f.kind == "Closure":
            continue
        st = f.rec.get("self_ty", "")
        is_iter = f.rec.get("impl_trait") == "std::iter::Iterator" and c13.cache_reaching_iter(F, st, cname)
        if (st.startswith(cname) and "CommandAcknowledgement" not in f.rec.get("ret", "") and name.split("::")[-1] not in ("new", "shutdown")) or is_iter:
            reads.append(f)
    ctx.floor("R15.6", "read APIs", len(reads), 10)
    read_names = {r.name for r in reads}

    # ---- R15.1: one access record iff a value is returned ----------------------------------------
    n_hit_src = 0
    # recording functions: local non-API functions from which an access buffer's lock is reachable (mark_key_accessed,
    # Pool::add ...); opaque in the symbolic paths, so the first one met on a path is one access record
    # = the functions that take a buffer lock themselves, and their unconditional forwarders (straight-line functions that
    # call exactly one recording function); a helper that records *conditionally* is not one: it is inlined and judged
    rec_fns = set()
    for n, g in F.fns.items():
        if n in read_names or g.kind == "Closure":
            continue
        if any(__import__("core").lock_call(t) in (("write", "PB"), ("read", "PB")) for b, t in g.calls()):
            rec_fns.add(n)
    grew = True
    while grew:
        grew = False
        for n, g in F.fns.items():
            if n in rec_fns or n in read_names or g.kind == "Closure":
                continue
            if any(g.term(b)["k"] == "switch" for b in g.live_blocks()):
                continue
            if len([1 for b, t in g.calls() if t.get("rpath") in rec_fns]) == 1:
                rec_fns.add(n)
                grew = True
    for f in reads:
        stop = lambda n, me=f.name: n in rec_fns or (n in read_names and n != me)
        paths = ipaths(F, f, stop=stop, depth=2)
        if not any(p.calls(rec_fns) for p in paths):
            continue
        n_hit_src += 1
        ctx.touch(f)
        ctx.analysed["paths"] += len(paths)
        bad = []
        badk = []
        for p in paths:
            recs = p.calls(rec_fns)
            n = len(recs)
            v = p.ret_variant()
            if v == ("Some",):
                if n != 1:
                    bad.append(("Some path records %d accesses" % n, p))
            elif v == ("None",):
                if n != 0:
                    bad.append(("None path records an access", p))
            else:
                bad.append(("return not determined", p))
            for e in recs:
                if not any(mentions(a, lambda s_: s_ == ("param", 2)) for a in e.args):      # the key itself, or its hash
                    badk.append(str([fmt(a) for a in e.args]))
        ctx.check(not bad and paths, "R15.1", "%s|one-record-iff-hit" % f.name,
                  "a read returning a value records exactly one access; a read returning None records none (%d symbolic paths)" % len(paths),
                  f.where(), "; ".join("%s %s" % (w, q.show()) for w, q in bad[:3]))
        # the recorded key is the looked-up key
        ctx.check(not badk, "R15.1", "%s|records-looked-up-key" % f.name,
                  "the access is recorded for the key that was looked up", f.where(), "; ".join(badk[:2]))
    ctx.floor("R15.1", "read APIs that record accesses directly", n_hit_src, 2)
    # ---- R15.12 accesses are counted under the hash admission later asks about
    import c10 as c10__
    c10__.configured_hash_rule(ctx, "R15.12")
    # ---- R15.11 a read answering several keys obtains each value through the single-key read (whose lookup/record pairing
    # R15.1 decides), one call per requested key: looking the store up directly and recording "afterwards, for what was
    # found" loses the pairing (duplicates collapse, a record per distinct key instead of per hit)
    from storemodel import StoreModel
    S_ = StoreModel(ctx)
    lookup_fns = {g.name for g, bb, t in S_.lookup_sites if (g.rec.get("ret") or "").startswith("std::option::Option<") and g.kind != "Closure"}
    for f in reads:
        if "HashMap<" not in (f.rec.get("ret") or "") or f.rec.get("impl_trait"):
            continue
        direct = []
        for g in [f] + F.closures_of(f):
            for b, t in g.calls():
                if t.get("rpath") in lookup_fns or t.get("rpath") in rec_fns:
                    direct.append("%s calls %s" % (g.name.split("::")[-1], t["rpath"].split("::")[-1]))
        via_single = any(t.get("rpath") in read_names for g in [f] + F.closures_of(f) for b, t in g.calls())
        ctx.check(not direct and via_single, "R15.11", "%s|multi-read-goes-through-the-single-read" % f.name,
                  "a read of several keys calls the single-key read once per requested key and neither looks the store up nor records accesses itself", f.where(), "; ".join(sorted(set(direct))[:3]))

    # ---- R15.2 who may add to the pool ---------------------------------------------------------------
    pool_adds = [f for n, f in F.fns.items() if any(lc == ("write", "PB") for lc in [__import__("core").lock_call(t) for b, t in f.calls()] if lc)]
    ctx.floor("R15.2", "functions locking an access buffer", len(pool_adds), 1)
    allowed_tops = {f.name for f in reads}
    for pf in pool_adds:
        tops = set()
        seen = set()
        work = [pf.name]
        while work:
            d = work.pop()
            if d in seen:
                continue
            seen.add(d)
            cs = {g.name for n, g in F.fns.items() for bb, t in g.calls() if t.get("rpath") == d}
            dfn = F.fn(d)
            if dfn is not None and dfn.kind == "Closure" and dfn.rec.get("parent"):
                cs = {dfn.rec["parent"]}        # a closure records on behalf of the function it is written in
            if d in allowed_tops or not cs:
                tops.add(d)
                continue
            work += list(cs)
        extra = sorted(t for t in tops if t not in allowed_tops and not t.startswith("cache::proxy::"))
        ctx.check(not extra, "R15.2", "%s|only-hit-paths-record" % pf.name,
                  "access records are produced only by the read APIs' hit paths (bench-only proxies own separate pools)", pf.where(), str(extra))

    # ---- R15.3 buffer conservation -------------------------------------------------------------------
    # buffer add functions: the innermost functions on whose symbolic paths (helpers inlined) an access is pushed into a
    # vector AND a vector is handed to the consumer
    is_push = lambda e: e.generic.endswith("Vec::<T, A>::push")
    is_clear = lambda e: e.generic.endswith("Vec::<T, A>::clear")
    is_accept = lambda e: e.generic.endswith("BufferConsumer::accept") or e.callee.endswith("BufferConsumer::accept")
    cand = {}
    for name, f in F.fns.items():
        if f.kind == "Closure" or f.argc < 2:
            continue
        if not (reaches_call(F, f, "Vec::<T, A>::push", 2) and reaches_call(F, f, "BufferConsumer::accept", 2)):
            continue
        ps = ipaths(F, f, stop=lambda n: False, depth=2)
        if any(any(is_push(e) for e in p.events) for p in ps) and any(any(is_accept(e) for e in p.events) for p in ps):
            cand[name] = (f, ps)
    inner = [n for n, (f, ps) in cand.items() if not any(t.get("rpath") in cand and t.get("rpath") != n for b, t in f.calls())]
    bufs = [cand[n] for n in sorted(inner)]
    ctx.floor("R15.3", "buffer add functions (push + hand-over + clear)", len(bufs), 1)
    for f, paths in bufs:
        ctx.touch(f)
        ctx.analysed["paths"] += len(paths)
        bad_push, bad_hand, bad_clear, bad_order = [], [], [], []
        n_hand = 0
        for p in paths:
            pushes = [e for e in p.events if is_push(e)]
            accepts = [e for e in p.events if is_accept(e)]
            clears = [e for e in p.events if is_clear(e)]
            if len(pushes) != 1 or pushes[0].args[1] != ("param", 2):
                bad_push.append(p)
                continue
            vec = pushes[0].args[0]
            if not accepts:
                if clears:
                    bad_clear.append(("the buffer is cleared without having been handed over", p))
                continue
            n_hand += 1
            if len(accepts) != 1:
                bad_hand.append(("%d hand-overs on one call" % len(accepts), p))
                continue
            ev = accepts[0].args[1]
            inner_v = ev[3][0][1] if ev[0] == "agg" and ev[2] == "Full" and ev[3] else None
            taken = inner_v is not None and is_call_to(inner_v, "std::mem::take", "std::mem::replace") and same_value(inner_v[2][0], vec)
            cloned = inner_v is not None and inner_v[0] == "call" and inner_v[1] == "clone" and same_value(inner_v, vec)
            if not (taken or cloned):
                bad_hand.append(("what is handed to the consumer is not Full(a copy of / the contents of this buffer): %s" % fmt(ev)[:80], p))
                continue
            if cloned:
                if len(clears) != 1 or not same_value(clears[0].args[0], vec):
                    bad_clear.append(("after the hand-over the same vector must be cleared exactly once (%d clears)" % len(clears), p))
                    continue
                if not (accepts[0].seq < clears[0].seq):
                    bad_clear.append(("the buffer is cleared before its copy was handed over", p))
                if not (clears[0].seq < pushes[0].seq):
                    bad_order.append(p)
            else:
                if clears and not (clears[0].seq < pushes[0].seq):
                    bad_order.append(p)
                if not (accepts[0].seq < pushes[0].seq):
                    bad_order.append(p)
        ctx.check(not bad_push and paths, "R15.3", "%s|push-exactly-once" % f.name,
                  "every call stores the incoming access exactly once, on every path (%d symbolic paths)" % len(paths), f.where(), "; ".join(q.show() for q in bad_push[:2]))
        ctx.check(not bad_hand and n_hand >= 1, "R15.3", "%s|handover-moves-buffer" % f.name,
                  "a full buffer is handed to the consumer once as Full(clone of / contents of that very vector)", f.where(), "; ".join("%s %s" % (w, q.show()) for w, q in bad_hand[:2]))
        ctx.check(not bad_clear, "R15.3", "%s|clear-after-handover" % f.name,
                  "the buffer is cleared only after a clone of the same vector was handed to the consumer as Full(..)", f.where(), "; ".join("%s %s" % (w, q.show()) for w, q in bad_clear[:2]))
        ctx.check(not bad_order, "R15.3", "%s|push-after-clear" % f.name,
                  "the incoming access is stored after the hand-over/clear, so it is not wiped", f.where(), "; ".join(q.show() for q in bad_order[:2]))
        # between two hand-overs the buffer only grows: nothing but push / clear / take touches the vector mutably (a dedup,
        # truncate, retain, pop, drain, sort+dedup .. - also inside the argument of a log macro - loses records that were
        # neither delivered nor counted as dropped)
        READ_ONLY = ("::len", "::is_empty", "::capacity", "::clone", "::iter", "::as_slice", "Deref::deref", "::first", "::last", "::get", "::contains",
                     "::fmt", "::eq", "::ne", "::borrow", "::as_ref", "::to_vec", "::into", "::from",
                     # permutations keep every record (the consumer does not depend on the order inside a buffer)
                     "::sort", "::sort_unstable", "::reverse", "::swap", "DerefMut::deref_mut", "::reserve", "::shrink_to_fit")
        shrinks = []
        for p in paths:
            pushes = [e for e in p.events if is_push(e)]
            if len(pushes) != 1:
                continue
            vec = pushes[0].args[0]
            for e in p.events:
                if e.log or is_push(e) or is_clear(e) or is_accept(e) or not e.args:
                    continue
                if not any(same_value(a, vec) or mentions(a, lambda s_: same_value(s_, vec)) for a in e.args if isinstance(a, tuple)):
                    continue
                g = e.generic
                if g.startswith(("std::mem::take", "std::mem::replace")) or any(g.endswith(s_) for s_ in READ_ONLY):
                    continue
                shrinks.append("%s @ %s" % (g, e.where()))
        ctx.check(not shrinks, "R15.3", "%s|buffer-only-grows-until-handed-over" % f.name,
                  "on the paths of the buffer's add nothing but push, the hand-over (clone / take) and the clear operates on the buffered vector", f.where(),
                  "; ".join(sorted(set(shrinks))[:3]))

    # ---- R15.7 the buffer lock is never lent out inside a critical section ---------------------------------
    # snapshot, hand-over, clear and push are one critical section of the buffer lock: a temporary release
    # (Guard::unlocked / unlocked_fair / bump) in between lets another reader push into the buffer after the
    # snapshot was taken and before the clear wipes it
    lends = []
    for name, f in F.fns.items():
        for b, t in f.calls():
            last = t["callee"].split("::")[-1]
            if "Guard" in t["callee"] and last in ("unlocked", "unlocked_fair", "bump", "bump_exclusive", "bump_shared") and t["args"]:
                pl = t["args"][0].get("place")
                ty = f.locals[pl["l"]]["ty"] if pl else ""
                if "Buffer<" in ty or "PB" in [c for c in f.guard_classes(pl["l"])] if pl else False:
                    lends.append((f, b, last))
    for f, b, last in lends:
        ctx.bad("R15.7", "%s|buffer-lock-lent-out|%s" % (f.name, last),
                "the access buffer's lock is released temporarily (%s) while a hand-over is in progress: accesses pushed in that window are wiped by the following clear" % last, f.where(b))
    ctx.ok("R15.7", "buffer-lock-never-lent-out", "no Guard::unlocked/bump on an access-buffer guard anywhere in the crate (%d functions scanned)" % len(F.fns)) if not lends else None

    # ---- R15.4 hand-over accounting ------------------------------------------------------------------
    added = SM.bumps_of("AccessAdded")
    dropped = SM.bumps_of("AccessDropped")
    ctx.check(bool(added) and bool(dropped), "R15.4", "access-counters", "AccessAdded / AccessDropped counter functions exist", detail="%s %s" % (sorted(added), sorted(dropped)))
    stat_stop = lambda n: n in added or n in dropped
    acc = []
    for n, f in F.fns.items():
        if f.rec.get("impl_trait", "").endswith("BufferConsumer") and f.kind != "Closure":
            ps = ipaths(F, f, stop=stat_stop)
            if any(p.calls(added | dropped) for p in ps):
                acc.append((f, ps))
    ctx.floor("R15.4", "consumer hand-over functions with accounting", len(acc), 1)
    for f, paths in acc:
        ctx.touch(f)
        ctx.analysed["paths"] += len(paths)
        bad = []
        nontrivial = 0
        for p in paths:
            # (accounting the constant 0 changes nothing: `record(0)` for a non-Full event is not an accounting step)
            A = [e_ for e_ in p.calls(added) if not (len(e_.args) > 1 and _zero_amount(e_.args[1]))]
            D = [e_ for e_ in p.calls(dropped) if not (len(e_.args) > 1 and _zero_amount(e_.args[1]))]
            sends = [e for e in p.events if e.generic.endswith("SelectedOperation::<'_>::send") or "Sender::<T>::try_send" in e.generic]
            full = p.variant_of(("param", 2))
            is_full = full == ("Full",)
            is_len = lambda x: mentions(x, lambda s_: is_call_to(s_, "Vec::<T, A>::len", "Vec::<T, A>::is_empty"))
            zero = lambda c: c[0] == "const" and c[1] == 0 and c[1] is not False          # the length may have been cast (`len() as u64`)
            pos = [a for a in p.atoms if a[0] == "bool" and a[1][0] == "binop" and a[1][1] == "Lt" and zero(a[1][2]) and is_len(a[1][3])]
            pos += [(a[0], a[1], not a[2], a[3]) for a in p.atoms if a[0] == "bool" and a[1][0] == "binop" and a[1][1] == "Eq" and (zero(a[1][2]) or zero(a[1][3])) and is_len(a[1])]
            pos += [(a[0], a[1], not a[2], a[3]) for a in p.atoms if a[0] == "bool" and is_call_to(a[1], "Vec::<T, A>::is_empty")]
            nonempty = not any(not a[2] for a in pos)      # no branch on this path established size == 0
            if any(a[2] for a in pos) and any(not a[2] for a in pos):
                continue        # size > 0 both true and false on one path: infeasible
            if len(sends) > 1:
                bad.append(("event sent twice", p))
            if is_full and nonempty:
                nontrivial += 1
                if len(A) + len(D) != 1:
                    bad.append(("full buffer accounted %d times" % (len(A) + len(D)), p))
                    continue
                ev = (A or D)[0]
                amt = ev.args[1]
                amt0 = amt
                while amt0[0] == "cast":
                    amt0 = amt0[1]
                # exactly the length (possibly cast): `counter_so_far + len` or `2 * len` also *mention* the length
                if not (is_call_to(amt0, "Vec::<T, A>::len") and mentions(amt0, lambda z: z == ("param", 2))):
                    bad.append(("accounted amount is not (exactly) the length of the buffer handed over: %s" % fmt(amt)[:80], p))
                sent_ok = bool(sends) and p.variant_of(sends[0].res) == ("Ok",)
                if A and not sent_ok:
                    bad.append(("counted as added although no send succeeded", p))
                if D and sent_ok:
                    bad.append(("counted as dropped although the send succeeded", p))
            elif (A or D) and not nonempty:
                # accounting an empty buffer with exactly its length adds 0: harmless (`if size >= 0 { add(size) }`)
                amt_ = (A or D)[0].args[1]
                while amt_[0] == "cast":
                    amt_ = amt_[1]
                zero_amt = (amt_[0] == "const" and amt_[1] == 0) or (is_full and is_call_to(amt_, "Vec::<T, A>::len") and mentions(amt_, lambda z: z == ("param", 2)))
                if not zero_amt or len(A) + len(D) != 1:
                    bad.append(("empty/non-Full event accounted", p))
            elif (A or D) and not is_full:
                bad.append(("a non-Full event is accounted", p))
        ctx.check(not bad and nontrivial >= 2, "R15.4", "%s|exactly-one-of-added-dropped" % f.name,
                  "every non-empty Full event is accounted exactly once: added iff the non-blocking send succeeded, dropped otherwise (%d symbolic paths, %d with a non-empty buffer; helpers inlined)" % (len(paths), nontrivial),
                  f.where(), "; ".join("%s %s" % (w, q.show()) for w, q in bad[:3]))
        e = {"block": set(), "nonblock": set()}
        for bb, t in f.calls():
            se = site_effects(F, f, bb)
            e["block"] |= se["block"]
            e["nonblock"] |= se["nonblock"]
        ctx.check(not e["block"], "R15.4", "%s|handover-nonblocking" % f.name, "the hand-over never blocks (try_select / try_send only)", f.where(), str(sorted(e["block"])))

    # R15.8 (= R16.8): the access counters are bumped from many reader threads at once
    for o in ctx.own_of("c16"):
        if o["rule"] == "R16.8":
            ctx._add(o["status"], "R15.8", o["key"].split("|", 1)[1], o["desc"], o["where"], o["detail"])

    # ---- R15.5 consumer applies each buffer once -----------------------------------------------------
    spawn = F.spawn_closures()
    from ackmodel import thread_roots
    # consumer loops: the function (thread closure, or a function only that thread runs) that receives BufferEvents
    cons = []
    for n_, c in F.fns.items():
        if any("BufferEvent" in " ".join(t.get("gargs", [])) and t["callee"].endswith("Receiver::<T>::recv") for b, t in c.calls()):
            roots_ = thread_roots(F, n_, spawn)
            if roots_ and all(r_ in spawn for r_ in roots_):
                cons.append(c)
    ctx.floor("R15.5", "access-count consumer threads", len(cons), 1)
    for c in cons:
        ctx.touch(c)
        # every point at which the consumer takes an event off the channel (the blocking recv of the loop, and any
        # try_recv / recv_timeout / iterator that drains more): what is taken there is gone from the channel, so each such
        # point owes the same thing - a Full(buffer) received is applied
        DEQ = ("Receiver::<T>::recv", "Receiver::<T>::try_recv", "Receiver::<T>::recv_timeout", "Receiver::<T>::recv_deadline")
        Rs = [b for b, t in c.calls() if t["callee"].endswith(DEQ) and "BufferEvent" in " ".join(t.get("gargs", []))]
        drains = [b for b, t in c.calls() if t["callee"].endswith(("Receiver::<T>::iter", "Receiver::<T>::try_iter", "Receiver::<T>::into_iter")) and "BufferEvent" in " ".join(t.get("gargs", []))]
        ctx.check(not drains, "R15.5", "%s|no-unaccounted-drain" % c.name, "the consumer takes events only at points where each one is examined (no iterator draining the access channel)", c.where(drains[0]) if drains else c.where())
        own_ = (outer_fn_(F, c).rec.get("self_ty") or "").split("<")[0]
        # one iteration of the loop; helpers of the same type (a per-event function) inlined, everything else opaque
        paths = []
        for R in Rs:
            paths += [(R, p) for p in ipaths(F, c, stop=lambda n2: not (n2 in F.fns and (F.fns[n2].kind == "Closure" or (F.fns[n2].rec.get("self_ty") or "").split("<")[0] == own_)),
                                             depth=2, start=R, ends=set(c.return_blocks()) | set(Rs))]
        ctx.analysed["paths"] += len(paths)
        bad = []
        nfull = 0
        R = Rs[0]
        for R_, p in paths:
            R = R_
            re_ = [e for e in p.events if e.fn is c and e.bb == R]
            if not re_:
                continue
            ev = ("field", ("variant", re_[0].res, "Ok"), "0")
            fullv = p.variant_of(ev)
            incs = [e for e in p.events if not e.log and e.t["res"] == "item" and e.t.get("rlocal")
                    and "AF" in (site_effects(F, e.fn, e.bb)["acquire"] | set(e.fn.held_before_term(e.bb)))]
            if fullv == ("Full",):
                nfull += 1
                payload = ("field", ("variant", ev, "Full"), "0")
                whole = [e for e in incs if any(same_value(a, payload) for a in e.args)]
                pieces = [e for e in incs if e not in whole and any(
                    mentions(a, lambda s_: s_[0] == "call" and any(k in s_[1] for k in ("chunks", "::iter", "split", "::next", "into_iter")) and mentions(s_, lambda y: strip_site(y) == strip_site(payload))) for a in e.args)]
                piecewise = any(mentions(e.res, lambda s_: strip_site(s_) == strip_site(payload)) and any(k in e.generic for k in ("chunks", "::iter", "split", "into_iter")) for e in p.events)
                if len(incs) < 1 and not piecewise:
                    bad.append(("received buffer not applied", p))
                    continue
                if len(incs) < 1:
                    continue        # iterating over pieces of the buffer: zero iterations only for an empty buffer
                if whole and len(incs) != 1:
                    bad.append(("received buffer applied %d times" % len(incs), p))
                    continue
                if not whole and len(pieces) != len(incs):
                    bad.append(("the applied hashes are not the received buffer", p))
                for e in incs:
                    if "AF" not in e.fn.held_before_term(e.bb) and "AF" not in site_effects(F, e.fn, e.bb)["acquire"]:
                        bad.append(("buffer applied without the sketch lock", p))
            elif incs and p.variant_of(re_[0].res) == ("Ok",):
                bad.append(("sketch touched without a Full event", p))
        ctx.check(not bad and nfull >= 1, "R15.5", "%s|apply-once" % c.name,
                  "each received Full(buffer) is applied to the sketch exactly once under its write lock (%d loop paths)" % len(paths), c.where(R),
                  "; ".join("%s %s" % (w_, q.show()) for w_, q in bad[:3]))

    # ---- R15.9 the sketch side of "applied": the function the consumer hands the buffer to visits *every* hash in it, once
    # (an element loop over the whole vector - not `.skip(1)`, `.take(n)`, a filter - whose body records that element)
    from iters import elem_loops, ELEM
    n_apply = 0
    for n_, g in sorted(F.fns.items()):
        if g.kind == "Closure" or g.argc < 2 or not g.locals[2]["ty"].startswith("std::vec::Vec<u64"):
            continue
        if "AF" not in " ".join(sorted(set().union(*[site_effects(F, h, b_)["acquire"] for h in F.fns.values() for b_, t_ in h.calls() if t_.get("rpath") == n_] or [set()]))) and \
                not any("AF" in h.held_before_term(b_) for h in F.fns.values() for b_, t_ in h.calls() if t_.get("rpath") == n_):
            continue
        # a wrapper that only hands the vector on (takes the lock, calls the sketch) is judged at the function it calls
        if any(t_["res"] == "item" and t_.get("rlocal") and any(g.op_origin(a_) == ("param", 2) for a_ in t_["args"]) for b_, t_ in g.calls()):
            continue
        n_apply += 1
        loops = [L_ for L_ in elem_loops(F, g, stop=lambda x: x in F.fns and F.fns[x].kind != "Closure") if L_.over_all(lambda c_: strip_site(c_) == ("param", 2)) is not None]
        okl = len(loops) == 1 and not (loops[0].extra or {}).get("adaptors")
        if okl:
            k_ = loops[0].over_all(lambda c_: strip_site(c_) == ("param", 2))
            for q in loops[0].bodies or []:
                rec = [e for e in q.events if not e.log and e.t["res"] == "item" and e.t.get("rlocal") and any(mentions(a, lambda s_: s_ == ELEM(k_)) for a in e.args)]
                okl = okl and len(rec) >= 1          # (the loop visits the element once; its body must do something with it on every path)
            okl = okl and bool(loops[0].bodies)
        ctx.check(okl, "R15.9", "%s|every-hash-of-the-buffer-recorded" % n_,
                  "the buffer handed to the sketch is walked completely: one element loop over the whole vector, each element recorded once", g.where())
    ctx.floor("R15.9", "functions applying a buffer to the sketch", n_apply, 1)

    from core import no_try_locks
    no_try_locks(ctx, "R15.10", {"PB", "AF"}, "an access that is not buffered, or a buffer that is not applied, is lost unaccounted")
    # ---- R15.6 reads never wait ------------------------------------------------------------------------
    for f in reads:
        ctx.touch(f)
        for nid in F.insts_of(f.name):
            e = eff[nid]
            ctx.check(not e["block"] and "AF" not in e["acquire"] and e["nonblock"] <= {"try_select", "selected_send", "try_send", "try_recv"}, "R15.6",
                      "%s|read-never-waits" % f.name,
                      "a read API reaches no blocking channel/thread operation and never takes the sketch lock", f.where(),
                      "block=%s acquire=%s nonblock=%s" % (sorted(e["block"]), sorted(e["acquire"]), sorted(e["nonblock"])))


def outer_fn_(F, g):
    for _ in range(6):
        if g.kind != "Closure":
            return g
        p = F.fn(g.rec.get("parent"))
        if p is None:
            return g
        g = p
    return g


def site_acquire(F, name):
    """lock classes a function acquires itself (its own body, not its callees)"""
    out = set()
    for nid in F.insts_of(name):
        for bb2, kind, what, c2 in F.direct_effects(nid):
            if kind == "acquire":
                out.add(what)
    return out


def records_directly(F, f, bb, read_names):
    """the call at bb reaches a buffer lock without going through another read API"""
    import core
    for nid in F.insts_of(f.name):
        for b, k, tgt, c in F.inst_edges(nid):
            if b != bb or k not in ("local", "cb"):
                continue
            if F.def_of(tgt) in read_names:
                continue
            r = F.inst_reach([tgt], stop=lambda n: F.def_of(n) in read_names)
            for n in r:
                if F.def_of(n) in read_names:
                    continue
                for bb2, kind, what, c2 in F.direct_effects(n):
                    if kind == "acquire" and what == "PB":
                        return True
    return False
