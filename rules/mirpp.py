#!/usr/bin/env python3
"""Pretty-printer for the MIR-lite fact base (debug aid): mirpp.py <facts.json> <substring of fn path>"""
import json, sys

def place(p):
    s = "_%d" % p["l"]
    for e in p["p"]:
        if e == "deref": s = "(*%s)" % s
        elif isinstance(e, dict) and "f" in e: s += "." + e["f"]
        elif isinstance(e, dict) and "dc" in e: s = "(%s as %s)" % (s, e["dc"])
        elif isinstance(e, dict) and "index" in e: s += "[_%d]" % e["index"]
        elif isinstance(e, dict) and "cindex" in e: s += "[%d]" % e["cindex"]
        else: s += ".?"
    return s

def op(o):
    k = o["k"]
    if k in ("copy", "move"): return ("move " if k == "move" else "") + place(o["place"])
    if k == "const":
        if "fn" in o: return "fn:" + o["fn"]
        if "v" in o: return "const %s:%s" % (o["v"], o["ty"])
        return "const<%s>" % o.get("repr", o["ty"])[:60]
    return "?" + o.get("repr", "")

def rv(r):
    k = r["k"]
    if k == "use": return op(r["op"])
    if k == "ref": return ("&mut " if r["mut"] else "&") + place(r["place"])
    if k == "rawptr": return "&raw " + place(r["place"])
    if k == "cast": return "%s as %s (%s)" % (op(r["op"]), r["ty"][:50], r["ck"][:30])
    if k == "binop": return "%s(%s, %s)" % (r["op"], op(r["a"]), op(r["b"]))
    if k == "unop": return "%s(%s)" % (r["op"], op(r["a"]))
    if k == "discr": return "discr(%s)" % place(r["place"])
    if k == "agg":
        head = r.get("adt", r.get("closure", r["agg"]))
        if "variant" in r: head += "::" + r["variant"]
        names = r.get("names") or []
        fs = []
        for i, o in enumerate(r["ops"]):
            fs.append((names[i] + "=" if i < len(names) else "") + op(o))
        return "%s{%s}" % (head, ", ".join(fs))
    return "<%s %s>" % (k, r.get("repr", "")[:60])

def show(name, fn):
    b = fn["body"]
    print("fn %s  [%s:%s] argc=%d" % (name, fn["file"], fn["line"], b["argc"]))
    for i, l in enumerate(b["locals"]):
        g = " GUARD" + str([x["data"][:50] for x in l["guards"]]) if "guards" in l else ""
        print("    let _%d: %s%s%s" % (i, l["ty"][:110], (" // " + l["name"]) if "name" in l else "", g))
    for i, blk in enumerate(b["blocks"]):
        print("  bb%d%s:" % (i, " (cleanup)" if blk["cleanup"] else ""))
        for s in blk["stmts"]:
            if s["k"] == "assign":
                print("    %s = %s%s" % (place(s["place"]), rv(s["rv"]), "   // mac " + s["mac"] if "mac" in s else ""))
            elif s["k"] == "setdiscr":
                print("    discr(%s) = %s" % (place(s["place"]), s["variant"]))
        t = blk["term"]; k = t["k"]; m = "   // mac " + t["mac"] if "mac" in t else ""
        if k == "call":
            print("    %s = %s(%s) -> bb%s  [res=%s %s] gargs=%s%s" % (place(t["dest"]), t["callee"], ", ".join(op(a) for a in t["args"]), t.get("target"), t["res"], t.get("rpath", ""), [g[:40] for g in t.get("gargs", [])], m))
        elif k == "switch":
            print("    switch %s [%s] otherwise bb%d%s" % (op(t["discr"]), ", ".join("%d->bb%d" % (v, bb) for v, bb in t["targets"]), t["otherwise"], m))
        elif k == "drop":
            print("    drop(%s: %s) -> bb%d" % (place(t["place"]), t["ty"][:60], t["target"]))
        elif k == "assert":
            print("    assert(%s == %s, %s) -> bb%d" % (op(t["cond"]), t["expected"], t["msg"], t["target"]))
        elif k == "goto":
            print("    goto bb%d" % t["target"])
        else:
            print("    %s %s" % (k, t.get("repr", "")[:80]))

if __name__ == "__main__":
    f = json.load(open(sys.argv[1]))
    for name, fn in f["fns"].items():
        if sys.argv[2] in name:
            show(name, fn); print()
