"""C11 — writes are applied exactly once, one at a time, in submission order.  (DESIGN §4 C11)"""
from core import (site_effects, is_effectful, variant_edges, enum_paths, path_atoms, path_calls, path_return, ret_variant, same_value, strip_site, fmt,
                  root_calls, subexprs, is_call_to, classify_external, field_path, mentions)
from ackmodel import AckModel, thread_roots
from sym import ipaths

WITNESSES = ['W4DonePrivate', 'W6ExecutorUnreachable']
LEVEL = "proof"
EXPLANATION = ("One FIFO channel, one receiver owned by one spawned closure, blocking sends whose failure is "
               "surfaced, and a worker loop in which every dequeued command runs exactly one handler synchronously "
               "and is then acknowledged exactly once on its own acknowledgement: with crossbeam's FIFO guarantee "
               "this entails exactly-once, in-order application.")
ASSUMPTIONS = ["crossbeam_channel::bounded is FIFO per sender and across senders in happens-before order"]


def run(ctx):
    F = ctx.facts
    A = AckModel(ctx)
    if not A.pair_adt:
        ctx.bad("R11.0", "pair-adt", "command/acknowledgement pair type not found", detail="ANCHOR-MISSING")
        return
    spawn = F.spawn_closures()

    # ---- R11.1 single channel, single consumer --------------------------------------------------
    ctx.check(len(A.bounded_sites) == 1, "R11.1", "one-command-channel", "the command channel is created at exactly one site",
              detail=str([f.where(bb) for f, bb, t in A.bounded_sites]))
    clones = []
    for name, f in F.fns.items():
        for bb, t in f.calls_to("std::clone::Clone::clone"):
            g = (t.get("gargs") or [""])[0]
            if g.startswith("crossbeam_channel::Receiver<") and A.pair_adt in g:
                clones.append(f.where(bb))
    ctx.check(not clones, "R11.1", "receiver-never-cloned", "the command receiver is never cloned (single consumer)", detail=str(clones))
    recv_fns = sorted(set().union(*[thread_roots(F, f.name, spawn) for f, bb, t, m in A.recv_sites])) if A.recv_sites else []
    ctx.floor("R11.1", "receive sites on the command channel", len(A.recv_sites), 2)
    ctx.check(len(recv_fns) == 1 and recv_fns[0] in spawn, "R11.1", "one-consumer-thread",
              "all receives from the command channel happen in one spawned closure (the worker)", detail=str(recv_fns))
    if len(recv_fns) != 1 or recv_fns[0] not in spawn:
        return
    W = F.fn(recv_fns[0])
    ctx.touch(W)
    P = spawn[W.name]
    callers = [(g, bb, t) for n, g in F.fns.items() for bb, t in g.calls() if t.get("rpath") == P]
    ok = False
    if len(callers) == 1 and A.bounded_sites:
        g, bb, t = callers[0]
        bf, bbb, bt = A.bounded_sites[0]
        bcall = g.origin_call(bbb, bt) if g is bf else None
        for a in t["args"]:
            o = g.op_origin(a)
            if bcall and o == ("field", bcall, "1"):
                ok = True
    ctx.check(ok, "R11.1", "receiver-moved-into-worker-once",
              "the worker-spawning function is called once, with the receiver of the one command channel", F.fn(P).where() if F.fn(P) else None,
              "callers=%d" % len(callers))
    # the spawn site itself is not in a loop
    pf = F.fn(P)
    for bb, t in pf.calls_to("std::thread::spawn"):
        ctx.check(bb not in pf.reach_after(bb), "R11.1", "%s|spawn-once" % P, "the worker is spawned once per executor (spawn is not in a loop)", pf.where(bb))

    # ---- R11.2 blocking send, error surfaced -----------------------------------------------------
    ctx.floor("R11.2", "send sites on the command channel", len(A.send_sites), 1)
    for f, bb, t, m in A.send_sites:
        ctx.touch(f)
        ctx.check(m == "send", "R11.2", "%s|blocking-send" % f.name,
                  "commands are queued with the blocking Sender::send (never try_send/send_timeout, which drop under a full queue)", f.where(bb), m)
        paths = enum_paths(f)
        ctx.analysed["paths"] += len(paths)
        bad = []
        sres = f.origin_call(bb, t)
        pair = f.op_origin(t["args"][1])
        ack_in_pair = dict(pair[3]).get("acknowledgement") if pair[0] == "agg" else None
        for p in paths:
            atoms = path_atoms(f, p)
            v = [a for a in atoms if a[0] == "enum" and strip_site(a[1]) == strip_site(sres)]
            r = path_return(f, p, atoms)
            n_send = len([1 for b, tt in path_calls(f, p) if b == bb])
            if n_send != 1:
                bad.append(("send executed %d times" % n_send, p))
            if not v:
                bad.append(("send result not inspected", p))
                continue
            if v[0][2] == ("Ok",):
                if not (r[0] == "agg" and r[2] == "Ok" and ack_in_pair is not None and same_value(r[3][0][1], ack_in_pair)):
                    bad.append(("Ok path does not return the queued acknowledgement", p))
            else:
                if not (r[0] == "agg" and r[2] == "Err"):
                    bad.append(("failed send is not returned as Err", p))
        ctx.check(not bad and paths, "R11.2", "%s|send-result-surfaced" % f.name,
                  "each call sends once; Ok returns the acknowledgement that was queued, a failed send is returned as Err (%d paths)" % len(paths),
                  f.where(bb), "; ".join("%s via %s" % x for x in bad[:3]))

    handlers = worker_loop(ctx, A, W, "R11.3")
    if handlers is None:
        return

    # ---- R11.5 handlers only callable from the worker ------------------------------------------------
    def only_from_worker(name, seen=()):
        cs = {g.name for n, g in F.fns.items() for bb, t in g.calls() if t.get("rpath") == name}
        if not cs:
            return False
        return all(c == W.name or (c not in seen and only_from_worker(c, seen + (name,))) for c in cs)
    for h in sorted(handlers):
        cs = sorted({g.name for n, g in F.fns.items() for bb, t in g.calls() if t.get("rpath") == h})
        ctx.check(only_from_worker(h), "R11.5", "%s|only-worker-calls" % h, "a command handler is called only from the worker loop (directly or from another handler)", F.fn(h).where(), str(cs))
    ctx.floor("R11.5", "command handlers", len(handlers), 3)

    # ---- R11.6 a delete is never answered on the spot: it is always queued behind what was submitted before it
    import c04
    c04.delete_always_queues(ctx, A, "R11.6")

    # ---- R11.4 API: at most one queued command per call, and its acknowledgement is what is returned --
    senders = set(A.send_fns)
    changed = True
    while changed:
        changed = False
        for name, f in F.fns.items():
            if name not in senders and f.kind != "Closure" and any(t.get("rpath") in senders for bb, t in f.calls()):
                senders.add(name)
                changed = True
    n_api = 0
    for name, f in F.fns.items():
        if not (f.rec.get("reachable") and "CommandAcknowledgement" in f.rec.get("ret", "") and "Result<" in f.rec.get("ret", "")):
            continue
        n_api += 1
        ctx.touch(f)
        # private helpers inlined; the queueing functions and other public APIs stay opaque
        paths = ipaths(F, f, stop=lambda n, me=name: n in senders or (n != me and n in F.fns and F.fns[n].rec.get("reachable") and "CommandAcknowledgement" in F.fns[n].rec.get("ret", "")), depth=2)
        ctx.analysed["paths"] += len(paths)
        bad = []
        for p in paths:
            sc = p.calls(senders)
            if len(sc) > 1:
                bad.append(("%d commands queued on one path" % len(sc), p.trace))
            elif len(sc) == 1:
                if strip_site(p.ret) != strip_site(sc[0].res):
                    bad.append(("the queued command's acknowledgement is not what is returned", p.trace))
        ctx.check(not bad and paths, "R11.4", "%s|one-send-per-call" % name,
                  "a write API call queues at most one command and returns that command's send result (%d paths)" % len(paths),
                  f.where(), "; ".join("%s via %s" % x for x in bad[:3]))
    ctx.floor("R11.4", "public write APIs returning a send result", n_api, 6)
    # ---- R11.9 every queued write is applied: the one thread that applies them cannot be stopped by a lock-order cycle
    W_ = find_worker(ctx, A)
    if W_ is not None:
        import c18
        bad_cycle, bad_self = c18.cycle_through(ctx, [W_.name])
        ctx.check(bad_cycle is None and not bad_self, "R11.9", "no-lock-cycle-through-worker",
                  "no lock-order cycle (or same-class nested acquisition) involves code reachable from the command worker: a worker stuck behind another thread applies no further write",
                  detail=("cycle %s" % " -> ".join(bad_cycle) if bad_cycle else "") + (" self %s" % bad_self[:2] if bad_self else ""))
    # ---- R11.10 (= C18 R18.3) "nothing is dropped even when the command queue is full": a caller that waits for queue room
    # while holding a lock the worker needs (a store shard guard kept across the blocking send) stops the only consumer of
    # that queue - every write queued behind it is never applied
    for o in ctx.own_of("c18"):
        if o["rule"] == "R18.3":
            ctx._add(o["status"], "R11.10", o["key"].split("|", 1)[1], o["desc"], o["where"], o["detail"])
    # ---- R11.8 (= C12 R12.3) an acknowledgement that completed is delivered to whoever awaits it *now*: completion order is
    # observed through the futures, and a handle that keeps the first waker it saw never wakes a later awaiter - the
    # earlier write then never completes for its awaiter while later ones do
    for o in ctx.own_of("c12"):
        if o["rule"] == "R12.3" and any(x in o["key"] for x in ("registers-current-waker", "registration-dominates-flag-load", "wake-after-flag")):
            ctx._add(o["status"], "R11.8", o["key"], o["desc"], o["where"], o["detail"])


def find_worker(ctx, A):
    F = ctx.facts
    spawn = F.spawn_closures()
    recv_fns = sorted(set().union(*[thread_roots(F, f.name, spawn) for f, bb, t, m in A.recv_sites])) if A.recv_sites else []
    if len(recv_fns) != 1 or recv_fns[0] not in spawn:
        return None
    return F.fn(recv_fns[0])


def worker_loop(ctx, A, W, RULE, drain_liveness=False):
    """per dequeued command: one handler, then one completion of that command's own acknowledgement"""
    F = ctx.facts
    spawn = F.spawn_closures()
    # ---- R11.3 worker loop -------------------------------------------------------------------------
    recv_blocks = [bb for f, bb, t, m in A.recv_sites if m == "recv" and f is W]
    ctx.check(len(recv_blocks) == 1, RULE, "%s|one-dequeue-point" % W.name, "the worker has one dequeue point for normal processing", W.where())
    if len(recv_blocks) != 1:
        return None
    R = recv_blocks[0]
    rt = W.term(R)
    ends = set(W.return_blocks()) | {R}
    # drain sites: in the worker itself, or in a helper function it calls (the call is then the drain site of the loop)
    all_drains = [(f, bb, m) for f, bb, t, m in A.recv_sites if m in ("iter_next", "iter_for_each")]
    drain_helpers = {f.name for f, bb, m in all_drains if f is not W}
    changed = True
    while changed:
        changed = False
        for n_, g_ in F.fns.items():
            if n_ not in drain_helpers and g_ is not W and g_.kind != "Closure" and any(t_.get("rpath") in drain_helpers for b_, t_ in g_.calls()):
                drain_helpers.add(n_)
                changed = True
    drain_sites = [bb for f, bb, m in all_drains if f is W] + [b_ for b_, t_ in W.calls() if t_.get("rpath") in drain_helpers]
    foreach_sites = [(f, bb) for f, bb, m in all_drains if m == "iter_for_each"]
    next_sites = [(f, bb) for f, bb, m in all_drains if m == "iter_next"]
    # one loop iteration = a path from the dequeue back to it (or to the thread's end), walked path-sensitively: a status
    # routed through a local enum, a `match` split in two, `recv().unwrap()` all give the same events
    # inlined: closures, and the executor's own non-status helpers (a dispatcher `execute(command, ..) -> NextStep`, a
    # `shut_down(receiver, ack)` helper); opaque: handlers (status-returning functions), other components, completions
    wtype = (F.fn(spawn[W.name]).rec.get("self_ty") or "").split("<")[0] if F.fn(spawn.get(W.name, "")) is not None else ""

    def wstop(n):
        g_ = F.fns.get(n)
        if g_ is None:
            return True
        if g_.kind == "Closure":
            return False
        if n in A.done_fns or g_.rec.get("ret", "").endswith("CommandStatus"):
            return True
        return not (wtype and (g_.rec.get("self_ty") or "").split("<")[0] == wtype)
    paths = ipaths(F, W, stop=wstop, depth=3, start=R, ends=ends, model_unwrap=True)
    drain_keys = {(f_.name, bb_) for f_, bb_, m_ in all_drains}
    ctx.analysed["paths"] += len(paths)
    cmd_variants = set()
    bad = []
    handlers = set()
    for p in paths:
        re_ = [e for e in p.events if e.fn is W and e.bb == R]
        if not re_:
            continue
        rres = re_[0].res
        pair = ("field", ("variant", rres, "Ok"), "0")
        dones = p.calls(A.done_fns)
        if p.variant_of(rres) != ("Ok",):
            if dones:
                bad.append(("acknowledgement completed although nothing was dequeued", p))
            continue
        names = p.variant_of(("field", pair, "command"))
        if not names or any(n.startswith("!") for n in names):
            bad.append(("dequeued command is not matched on", p))
            continue
        cmd_variants |= set(names)
        cmd_e = strip_site(("field", pair, "command"))
        # handlers: local calls that touch cache state (locks/queues); pure bookkeeping calls (statistics counters,
        # accessors) made by the loop itself are not command applications
        local_calls = [e for e in p.events if not e.log and e.t["res"] == "item" and e.t.get("rlocal") and e.callee not in A.done_fns and e.callee not in drain_helpers
                       and (is_effectful(site_effects(F, e.fn, e.bb)) or any(mentions(a, lambda s_: s_[0] == "variant" and strip_site(s_[1]) == cmd_e) for a in e.args))]
        drains = [e for e in p.events if (e.fn is W and e.bb in drain_sites) or (e.fn.name, e.bb) in drain_keys]
        own = [e for e in dones if same_value(strip_ack(e.args[0]), ("field", pair, "acknowledgement"))]
        if drains:
            # shutdown arm: own ack completed once with Accepted, before draining; every drained pair gets ShuttingDown
            if len(own) != 1:
                bad.append(("shutdown arm completes its own acknowledgement %d times" % len(own), p))
            else:
                st = own[0].args[1]
                if not (st[0] == "agg" and st[2] == "Accepted"):
                    bad.append(("shutdown arm's own status is not Accepted", p))
                if own[0].seq > drains[0].seq:
                    bad.append(("shutdown acknowledged after draining began", p))
            for e in dones:
                if e in own:
                    continue
                st = e.args[1]
                a0 = strip_ack(e.args[0])
                from_drain = any(is_call_to(c, "::next") for c in root_calls(a0))
                if not (st[0] == "agg" and st[2] == "ShuttingDown" and from_drain):
                    bad.append(("drained command not answered ShuttingDown on its own acknowledgement", p))
            if p.blocks[-1] == R and len(p.blocks) > 1:
                bad.append(("worker dequeues again after Shutdown", p))
            continue
        if len(own) != 1 or len(dones) != 1:
            bad.append(("command %s acknowledged %d time(s) (own=%d)" % (names, len(dones), len(own)), p))
            continue
        if len(local_calls) != 1:
            bad.append(("command %s runs %d handlers" % (names, len(local_calls)), p))
            continue
        h = local_calls[0]
        handlers.add(h.callee)
        if h.seq > own[0].seq:
            bad.append(("acknowledged before the handler ran", p))
        st = own[0].args[1]
        if strip_site(st) != strip_site(h.res) and not (st[0] == "agg" and st[2] == "Accepted"):
            bad.append(("status %s does not come from the handler" % fmt(st)[:80], p))
        if mentions(st, lambda s_: s_[0] == "agg" and s_[2] == "Pending"):
            bad.append(("Pending used as a final status", p))
        # handler works on this command's payload
        payload_ok = any(mentions(a, lambda s_: s_[0] == "variant" and s_[2] in names and strip_site(s_[1]) == cmd_e) for a in h.args)
        if not payload_ok:
            bad.append(("handler of %s does not receive this command's payload" % (names,), p))
        if p.blocks[-1] != R:
            bad.append(("worker exits after a non-shutdown command", p))
    ctx.check(not bad and paths, RULE, "%s|one-handler-one-ack-per-command" % W.name,
              "per dequeued command: exactly one handler, run on the worker, then exactly one completion of that command's acknowledgement with the handler's status; Shutdown acknowledges itself then drains with ShuttingDown (%d loop paths)" % len(paths),
              W.where(R), "; ".join("%s %s" % (w_, q.show()) for w_, q in bad[:3]))
    for DW, db in foreach_sites:
        # drain written as receiver.iter().for_each(|pair| ..): on every path of the closure the received pair's own
        # acknowledgement is completed exactly once, with ShuttingDown
        clo = DW.op_origin(DW.term(db)["args"][1])
        c = F.fn(clo[1]) if clo[0] == "agg" else None
        okc = c is not None
        n_paths = 0
        if okc:

            for sp in ipaths(F, c, stop=lambda n: n in A.done_fns, depth=2):
                n_paths += 1
                ds = sp.calls(A.done_fns)
                if len(ds) != 1 or not same_value(ds[0].args[0], ("field", ("param", 2), "acknowledgement")) or not (ds[0].args[1][0] == "agg" and ds[0].args[1][2] == "ShuttingDown"):
                    okc = False
        ctx.check(okc and n_paths >= 1, RULE, "%s|every-drained-command-answered" % W.name,
                  "every command received while draining is completed (on its own acknowledgement) before the next receive", DW.where(db))
    for DW, db in next_sites:
        t = DW.term(db)
        ve = variant_edges(DW, t["target"]) if t.get("target") is not None else None
        some = [tgt for n, tgt in ve[1] if n == "Some"] if ve else []
        dres = DW.origin_call(db, t)
        done_blocks = []
        for b, tt in DW.calls():
            if tt.get("rpath") in A.done_fns:
                a0 = DW.op_origin(tt["args"][0])
                st0 = DW.op_origin(tt["args"][1])
                if any(strip_site(c) == strip_site(dres) for c in root_calls(a0)) and (DW is W or (st0[0] == "agg" and st0[2] == "ShuttingDown")):
                    done_blocks.append(b)
        ctx.check(bool(some) and bool(done_blocks) and all(DW.must_pass([s], done_blocks, targets=set(DW.return_blocks()) | {db}) for s in some),
                  RULE, "%s|every-drained-command-answered" % W.name,
                  "every command received while draining is completed (on its own acknowledgement) before the next receive", DW.where(db))
    if drain_liveness:
        for DW, db in next_sites:
            t = DW.term(db)
            ve = variant_edges(DW, t["target"]) if t.get("target") is not None else None
            some = [tgt for n, tgt in ve[1] if n == "Some"] if ve else []
            # the iterator stepped is the channel's own (it ends only on disconnection): an adaptor that can end it earlier
            # (`.take(receiver.len())`, take_while, ..) leaves commands queued during the drain unanswered
            ity = ((t.get("gargs") or [""])[0]).replace("&mut ", "")
            raw_iter = ity.startswith(("crossbeam_channel::Iter<", "crossbeam_channel::IntoIter<", "crossbeam_channel::TryIter<")) and not ity.startswith("crossbeam_channel::TryIter<")
            ctx.check(bool(some) and all(DW.must_pass([s], [db]) for s in some) and raw_iter, RULE, "%s|drain-exits-only-on-disconnect" % W.name,
                      "the drain loop leaves only when the channel reports disconnection: every later command is received and answered", DW.where(db), "iterator: %s" % ity[:80])
        for DW, db in foreach_sites:
            ity = ((DW.term(db).get("gargs") or [""])[0]).replace("&mut ", "")
            ctx.check(ity.startswith(("crossbeam_channel::Iter<", "crossbeam_channel::IntoIter<")), RULE, "%s|drain-exits-only-on-disconnect" % W.name,
                      "the drain loop leaves only when the channel reports disconnection: every later command is received and answered", DW.where(db), "iterator: %s" % ity[:80])
        ctx.check(len(drain_sites) >= 1, RULE, "%s|drain-exists" % W.name, "the Shutdown arm drains the queue", W.where())
    allv = set()
    for name, adt in F.adts.items():
        if name.endswith("command::CommandType"):
            allv = {v["name"] for v in adt["variants"]}
    ctx.check(allv and cmd_variants >= allv, RULE, "%s|all-commands-handled" % W.name,
              "every command variant has an arm in the worker", W.where(), "variants=%s handled=%s" % (sorted(allv), sorted(cmd_variants)))
    ctx.floor(RULE, "command variants", len(allv), 5)
    # synchronous execution: the worker neither sends nor spawns
    eff = F.effects()
    for nid in F.insts_of(W.name):
        r = F.inst_reach([nid], stop=lambda n, me=nid: n != me and F.def_of(n) in spawn)
        sends = set()
        spawns = []
        for n in r:
            for bb, kind, what, c in F.direct_effects(n):
                if kind == "block" and what == "chan_send" or kind == "nonblock" and what in ("try_send", "selected_send"):
                    sends.add(F.def_of(n))
            for bb, k, tgt, c in F.inst_edges(n):
                if k == "ext" and "std::thread::spawn" in str(tgt):
                    spawns.append(F.def_of(n))
        ctx.check(not sends and not spawns, RULE, "%s|handlers-synchronous" % W.name,
                  "handlers run to completion on the worker: no re-queueing, no hand-off to another thread", W.where(),
                  "sends=%s spawns=%s" % (sorted(sends), spawns))

    return handlers


def worker_paths(ctx, A, W):
    """one loop iteration of the worker as path-sensitive paths (executor-type dispatch helpers and closures inlined;
    handlers, completions and other components opaque) - the same view the worker-loop rule uses"""
    F = ctx.facts
    spawn = F.spawn_closures()
    recv_blocks = [bb for f, bb, t, m in A.recv_sites if m == "recv" and f is W]
    if len(recv_blocks) != 1:
        return []
    R = recv_blocks[0]
    wtype = (F.fn(spawn[W.name]).rec.get("self_ty") or "").split("<")[0] if F.fn(spawn.get(W.name, "")) is not None else ""

    def wstop(n):
        g_ = F.fns.get(n)
        if g_ is None:
            return True
        if g_.kind == "Closure":
            return False
        if n in A.done_fns or g_.rec.get("ret", "").endswith("CommandStatus"):
            return True
        return not (wtype and (g_.rec.get("self_ty") or "").split("<")[0] == wtype)
    return ipaths(F, W, stop=wstop, depth=3, start=R, ends=set(W.return_blocks()) | {R}, model_unwrap=True)


def strip_ack(e):
    return e
