"""C16 — statistics are exact at quiescence.  (DESIGN §4 C16)"""
from core import (enum_paths, path_atoms, path_calls, path_return, ret_variant, strip_site, same_value, fmt,
                  dashmap_call, is_call_to, mentions, subexprs, bool_branches, const_of)
from statsmodel import StatsModel
from weight import WeightModel
from storemodel import StoreModel

from sym import ipaths

LEVEL = "other"
EXPLANATION = ("Pairing rules on MIR paths between each counter bump and the event it counts: one of hit/miss per "
               "lookup with hit iff the returned option is Some; KeysAdded per store insert, KeysDeleted per "
               "successful removal; WeightAdded/WeightRemoved carry the same amount as the +=/-= on the total; "
               "KeysRejected exactly on the non-accepted admission outcomes; hit_ratio returns 0 only under "
               "hits == 0 and hits/(hits+misses) otherwise. The two's-complement encoding of weight decreases is "
               "an arithmetic identity and is not decided.")
ASSUMPTIONS = ["AtomicU64 fetch_add/load are atomic; quiescence means no operation in flight",
               "overwriting inserts are excluded by C05 R05.3 (otherwise KeysAdded over-counts)"]


def outer_fn(F, g):
    """the named function a closure is written in"""
    for _ in range(6):
        if g.kind != "Closure":
            return g
        p = F.fn(g.rec.get("parent"))
        if p is None:
            return g
        g = p
    return g


def strip_casts(e):
    while isinstance(e, tuple) and e and e[0] == "cast":
        e = e[1]
    return e


def run(ctx):
    F = ctx.facts
    SM = StatsModel(ctx)
    M = WeightModel(ctx)
    S = StoreModel(ctx)
    ctx.check(SM.prim is not None and len(SM.bump) >= 9, "R16.0", "stat-functions", "counter bump functions discovered from the StatsType constant they pass", detail=str(sorted((k.split("::")[-1], v[0]) for k, v in SM.bump.items())))
    hit, miss = SM.bumps_of("CacheHits"), SM.bumps_of("CacheMisses")

    # ---- R16.1 --------------------------------------------------------------------------------
    # lookup functions = the innermost Option-returning functions on whose symbolic paths (helpers and closures inlined,
    # the counter bumps opaque) a hit or a miss is counted
    hm_stop = lambda n: n in hit or n in miss
    cand = {}
    for n, f in F.fns.items():
        if f.kind == "Closure" or not f.rec.get("ret", "").startswith("std::option::Option<"):
            continue
        direct = any(t.get("rpath") in hit or t.get("rpath") in miss for b, t in f.calls())
        via = [t.get("rpath") for b, t in f.calls() if t["res"] == "item" and t.get("rpath") in F.fns]
        if not direct and not via:
            continue
        ps = ipaths(F, f, stop=hm_stop, depth=3)
        if any(p.calls(hit) or p.calls(miss) for p in ps):
            cand[n] = (f, ps)
    def reaches_other(n):
        for nid in F.insts_of(n):
            for m in F.inst_reach([nid]):
                d = F.def_of(m)
                if d != n and d in cand:
                    return True
        return False
    inner = {n for n in cand if not reaches_other(n)}
    lookups = [cand[n][0] for n in sorted(inner)]
    ctx.floor("R16.1", "lookup functions that count hits/misses", len(lookups), 1)
    for f in lookups:
        ctx.touch(f)
        paths = cand[f.name][1]
        ctx.analysed["paths"] += len(paths)
        bad = []
        for p in paths:
            h, m = p.calls(hit), p.calls(miss)
            if len(h) + len(m) != 1:
                bad.append(("%d hit + %d miss bumps on one lookup" % (len(h), len(m)), p))
                continue
            v = p.ret_variant()
            if v not in (("Some",), ("None",)):
                bad.append(("hit/miss not decided by the presence of the returned value", p))
            elif (v == ("Some",)) != bool(h):
                bad.append(("hit counted on None / miss counted on Some", p))
        ctx.check(not bad and paths, "R16.1", "%s|one-of-hit-miss" % f.name,
                  "each lookup counts exactly one of hit/miss, hit iff the value it returns is Some (%d symbolic paths, helpers inlined)" % len(paths), f.where(),
                  "; ".join("%s %s" % (w, q.show()) for w, q in bad[:3]))
    # lookups of the store happen only in counted functions or in non-read helpers (presence/update/mark)
    counted = {f.name for f in lookups}
    for f, bb, t in S.lookup_sites:
        if f.name in counted:
            continue
        # reachable from a counted lookup (helper) or never returning a value to a reader
        callers = {g.name for n, g in F.fns.items() for b2, t2 in g.calls() if t2.get("rpath") == f.name}
        feeds_reader = bool(callers & counted)
        returns_value = "Option<" in f.rec.get("ret", "") and f.rec.get("reachable") is not None and ("KeyValueRef" in f.rec.get("ret", "") or "Value>" in f.rec.get("ret", ""))
        ctx.check(feeds_reader or not returns_value or "UpdateResponse" in f.rec.get("ret", ""), "R16.1", "%s|uncounted-lookup" % f.name,
                  "a store lookup that returns a value to readers is counted as hit or miss", f.where(bb))

    # ---- R16.2 ----------------------------------------------------------------------------------
    addk, delk = SM.bumps_of("KeysAdded"), SM.bumps_of("KeysDeleted")
    for fname in sorted(S.insert_fns):
        f = F.fn(fname)
        ctx.touch(f)
        bad = []
        for p in enum_paths(f):
            calls = path_calls(f, p)
            ni = len([1 for b, t in calls if dashmap_call(t) == ("insert", "S")])
            na = len([1 for b, t in calls if t.get("rpath") in addk])
            if ni != na:
                bad.append(("%d inserts, %d KeysAdded" % (ni, na), p))
        ctx.check(not bad, "R16.2", "%s|keys-added-per-insert" % fname, "KeysAdded is bumped exactly once per store insert", f.where(), str(bad[:2]))
    for fname in sorted(S.remove_fns):
        f = F.fn(fname)
        ctx.touch(f)
        bad = []
        for p in ipaths(F, f, stop=lambda n: n in delk, depth=3):
            rem = [e for e in p.events if dashmap_call(e.t) in (("remove", "S"), ("remove_if", "S"), ("remove_if_mut", "S"))]
            nd = len(p.calls(delk))
            if len(rem) != 1:
                if nd:
                    bad.append(("KeysDeleted bumped on a path with %d removals" % len(rem), p))
                continue
            v = p.variant_of(rem[0].res)
            if v == ("Some",):
                if nd != 1:
                    bad.append(("removed an entry, KeysDeleted bumped %d times" % nd, p))
            elif v == ("None",):
                if nd != 0:
                    bad.append(("KeysDeleted bumped although nothing was removed", p))
            else:
                # the outcome of the removal is not looked at on this path: whether an entry went away is then unknown to
                # the code, and a fixed number of bumps (0 or 1) is wrong for one of the two outcomes
                bad.append(("an entry may or may not have been removed (the result of the removal is not examined), KeysDeleted bumped %d times" % nd, p))
        ctx.check(not bad, "R16.2", "%s|keys-deleted-per-removal" % fname, "KeysDeleted is bumped exactly once per successful removal", f.where(), str([(w, q.show()) for w, q in bad[:2]]))
    # nobody else bumps them
    for variant, fns, homes in (("KeysAdded", addk, S.insert_fns), ("KeysDeleted", delk, S.remove_fns)):
        users_ = {outer_fn(F, g).name for n, g in F.fns.items() for b, t in g.calls() if t.get("rpath") in fns}
        # a private helper doing the map operation and the bump for several entry points counts as those entry points
        helper_ok_ = {u for u in users_ - set(homes) if {g.name for g in F.fns.values() for b, t in g.calls() if t.get("rpath") == u} and
                      {g.name for g in F.fns.values() for b, t in g.calls() if t.get("rpath") == u} <= set(homes)}
        others = sorted(users_ - set(homes) - helper_ok_)
        ctx.check(not others, "R16.2", "%s|only-at-event" % variant, "%s is bumped only where the event happens" % variant, detail=str(others))

    # ---- R16.3 ----------------------------------------------------------------------------------
    wadd, wrem = SM.bumps_of("WeightAdded"), SM.bumps_of("WeightRemoved")
    for s in M.inc_sites + M.dec_sites:
        f = s["fn"]
        X = s["amount"]
        want = wadd if s["kind"] == "increase" else wrem
        if s["kind"] == "increase" and X[0] == "binop" and X[1] == "Sub":
            new, old = X[2], X[3]
            helpers = []
            for b, t in f.calls():
                if t["res"] == "item" and t.get("rlocal") and len(t["args"]) == 3:
                    a = [f.op_origin(x) for x in t["args"]]
                    if same_value(a[1], new) and same_value(a[2], old):
                        helpers.append((b, t))
            okh = False
            for b, t in helpers:
                g = F.fn(t["rpath"])
                okh = okh or check_delta_helper(ctx, g, wadd)
            okd = bool(helpers) and okh and all(f.must_pass([s["bb"]], [b for b, t in helpers]) or f.block_dominates(b, s["bb"]) for b, t in helpers[:1])
            if not helpers:
                # the statistics update is written in the function itself (or was a private helper of it): same rule per path
                okd = check_delta_paths(ctx, f, wadd, new, old)
            ctx.check(okd,
                      "R16.3", "%s|delta-stats-same-operands" % f.name,
                      "a weight update reports (new, old) - the operands of the delta applied to the total, in that order - to the weight statistics", f.where(s["bb"], s["idx"]))
            continue
        sites = [(b, t) for b, t in f.calls() if t.get("rpath") in want]
        good = [b for b, t in sites if same_value(strip_casts(f.op_origin(t["args"][1])), X)]
        ctx.check(len(sites) == 1 and len(good) == 1 and (f.must_pass([s["bb"]], good) or f.block_dominates(good[0], s["bb"])), "R16.3",
                  "%s|weight-stat-same-amount" % f.name,
                  "%s is bumped exactly once with the amount applied to the total" % ("WeightAdded" if s["kind"] == "increase" else "WeightRemoved"),
                  f.where(s["bb"], s["idx"]), "amount=%s stat sites=%d" % (fmt(X), len(sites)))
        # the opposite counter is not touched
        opp = wrem if s["kind"] == "increase" else wadd
        ctx.check(not [1 for b, t in f.calls() if t.get("rpath") in opp], "R16.3", "%s|no-opposite-weight-stat" % f.name,
                  "an increase never bumps WeightRemoved and vice versa", f.where())
    homes = {s["fn"].name for s in M.sites}
    for variant, fns in (("WeightAdded", wadd), ("WeightRemoved", wrem)):
        users = {outer_fn(F, g).name for n, g in F.fns.items() for b, t in g.calls() if t.get("rpath") in fns}
        helper_ok = set()
        for u in users - homes:
            cs = {g.name for n, g in F.fns.items() for b, t in g.calls() if t.get("rpath") == u}
            if cs and cs <= homes:
                helper_ok.add(u)
        ctx.check(users <= homes | helper_ok, "R16.3", "%s|only-with-total" % variant, "%s is bumped only alongside a write of the total weight" % variant, detail=str(sorted(users - homes - helper_ok)))

    for s_ in M.sites + M.helper_sites:
        ctx.check(s_["kind"] != "unclassified" and s_.get("exact", True), "R16.6", "%s|total-written-exactly" % s_["fn"].name,
                  "every write of the total weight applies exactly the intended amount (the space the decisions and statistics rely on is the true total)", s_["fn"].where(s_["bb"], s_["idx"]))
    # ---- R16.4 ----------------------------------------------------------------------------------
    rej = SM.bumps_of("KeysRejected")
    charge_fns = {s["fn"].name for s in M.inc_sites if not (s["amount"][0] == "binop" and s["amount"][1] == "Sub")}
    admit = {n for n, f in F.fns.items() if f.rec.get("ret", "").endswith("command::CommandStatus") and any(t.get("rpath") in charge_fns for b, t in f.calls())}
    # put handlers = the outermost functions on whose paths (helpers inlined) an admission decision is taken
    hc = {}
    for n, f in F.fns.items():
        if f.kind == "Closure" or n in admit or not any(t["res"] == "item" and t.get("rlocal") for b, t in f.calls()):
            continue
        if not (f.rec.get("ret", "").endswith("command::CommandStatus")):
            continue
        ps = ipaths(F, f, stop=lambda x: x in admit or x in rej, depth=2)
        if any(p.calls(admit) for p in ps):
            hc[n] = (f, ps)
    outer = [n for n in hc if not any(t.get("rpath") == n for m in hc if m != n for b, t in hc[m][0].calls())]
    handlers = [hc[n][0] for n in sorted(outer)]
    ctx.floor("R16.4", "put handlers calling admission", len(handlers), 1)
    handler_family = set(hc)
    for f in handlers:
        ctx.touch(f)
        bad = []
        for p in hc[f.name][1]:
            adm = p.calls(admit)
            nr = len(p.calls(rej))
            if not adm:
                if nr:
                    bad.append(("KeysRejected bumped without an admission decision", p))
                continue
            v = p.variant_of(adm[0].res)
            if v is None:
                bad.append(("admission status not inspected", p))
            elif v == ("Accepted",):
                if nr != 0:
                    bad.append(("accepted put counted as rejected", p))
            elif "Accepted" in v and not any(x.startswith("!") for x in v):
                bad.append(("admission status not decided on a path", p))
            elif nr != 1:
                bad.append(("refused put counted %d times" % nr, p))
        ctx.check(not bad, "R16.4", "%s|rejected-iff-refused" % f.name,
                  "KeysRejected is bumped exactly once when admission refused the put and never when it accepted", f.where(), "; ".join("%s %s" % (w_, q.show()) for w_, q in bad[:3]))
    others = sorted({outer_fn(F, g).name for n, g in F.fns.items() for b, t in g.calls() if t.get("rpath") in rej} - handler_family)
    ctx.check(not others, "R16.4", "rejected-only-in-handlers", "KeysRejected is bumped only by the put handlers", detail=str(others))

    # ---- R16.7 admission refusals are produced only where they are counted ---------------------------------
    # the reasons admission refuses with = the variants of the rejection-reason enum built inside the admission
    # functions (and their local callees); building one anywhere else hands a caller an admission refusal that no
    # put handler sees, so KeysRejected misses it
    def local_closure(roots):
        seen, todo = set(), list(roots)
        while todo:
            n = todo.pop()
            if n in seen or n not in F.fns:
                continue
            seen.add(n)
            g = F.fns[n]
            for b, t in g.calls():
                if t["res"] == "item" and t.get("rlocal") and t.get("rpath") in F.fns:
                    todo.append(t["rpath"])
            for c in F.closures_of(g):
                todo.append(c.name)
        return seen
    reason_adt = None
    for name, adt in F.adts.items():
        if name.endswith("command::CommandStatus") and adt["kind"] == "Enum":
            for v in adt["variants"]:
                if v["name"] == "Rejected" and v["fields"]:
                    reason_adt = v["fields"][0]["ty"]
    ctx.check(reason_adt in F.adts, "R16.7", "rejection-reason-type", "the reason type carried by CommandStatus::Rejected is discovered", detail=str(reason_adt))
    if reason_adt in F.adts:
        built = {}
        for n, g in F.fns.items():
            for b in g.live_blocks():
                for st in g.blocks[b]["stmts"]:
                    if st["k"] == "assign" and st["rv"]["k"] == "agg" and st["rv"].get("adt") == reason_adt:
                        built.setdefault(st["rv"].get("variant", ""), []).append((g, b))
        inside = local_closure(admit)
        admission_reasons = sorted(v for v, sites in built.items() if any(g.name in inside for g, b in sites))
        ctx.floor("R16.7", "reasons admission refuses with", len(admission_reasons), 2)
        for v in admission_reasons:
            outside = sorted({g.name for g, b in built[v] if g.name not in inside})
            ctx.check(not outside, "R16.7", "%s|refusal-built-only-in-admission" % v,
                      "the admission refusal %s is produced only inside the admission decision whose outcome the put handlers count" % v,
                      detail="also built in %s" % outside)

    # ---- R16.8 counters are only ever changed by one atomic read-modify-write --------------------------------------
    # (a load followed by a store / a compare_exchange with a store fallback loses concurrent updates: readers on
    # several threads bump the access counters at the same time)
    n_w = 0
    for n, g in F.fns.items():
        st_ = outer_fn(F, g).rec.get("self_ty") or ""
        if st_.split("<")[0] not in (SM.holder,) and "Counter" not in st_:
            continue
        for b, t in g.calls():
            c = t["callee"]
            if not c.startswith("std::sync::atomic::Atomic::<u64>::"):
                continue
            m = c.split("::")[-1]
            if m in ("load", "new", "default", "into_inner", "get_mut"):
                continue
            n_w += 1
            okw = m == "fetch_add" or (m == "store" and g.op_origin(t["args"][1]) == ("const", 0, "u64"))
            ctx.check(okw, "R16.8", "%s|counter-updated-atomically|%s" % (n, m),
                      "a statistics counter is changed only by fetch_add (or reset to 0 by clear): no read-then-write sequence that could lose a concurrent update", g.where(b))
    ctx.floor("R16.8", "atomic writes to statistics counters", n_w, 2)

    # ---- R16.9 the read side: what a caller is told under a statistic's name is that statistic's counter -----------------
    # (a) writer and reader address the counters the same way: every atomic operation of the statistics type that picks a
    #     counter by a StatsType picks `entries[that value as usize]` - no arithmetic on the index
    holder_fns = [g for n_, g in F.fns.items() if SM.holder and (outer_fn(F, g).rec.get("self_ty") or "").split("<")[0] == SM.holder]
    n_idx = 0
    for g in holder_fns:
        if g.kind == "Closure":
            continue
        sel = {}
        for p_ in ipaths(F, g, stop=lambda n_: False, depth=3):
            for e in p_.events:
                if not e.generic.startswith("std::sync::atomic::Atomic::<u64>::") or e.generic.endswith("::new"):
                    continue
                idxs = [x for x in subexprs(e.args[0]) if x[0] == "index"]
                if not idxs:
                    continue            # an element of an iteration over all counters (clear)
                ix = idxs[0][2]
                plain = not mentions(ix, lambda s_: s_[0] in ("binop", "unop") or (s_[0] == "call" and not s_[1].endswith("clone")))
                sel.setdefault(e.generic.split("::")[-1], []).append((plain, ix))
        for m_, L_ in sorted(sel.items()):
            n_idx += 1
            ctx.check(all(pl for pl, ix in L_), "R16.9", "%s|counter-index-is-the-statistic|%s" % (g.name, m_),
                      "a counter is selected as entries[statistic as usize], the same way for bumps and reads (no offset, modulo or other arithmetic on the index; conversions through a private index type inlined)", g.where(), "; ".join(sorted({fmt(ix)[:80] for pl, ix in L_ if not pl})))
    ctx.floor("R16.9", "counter selections by statistic", n_idx, 2)
    # (b) the summary pairs every statistic of the table with the read of that same statistic, and the table lists every
    #     variant of the statistics enum exactly once
    from iters import elem_loops, ELEM
    summ = [g for n_, g in F.fns.items() if g.kind != "Closure" and (g.rec.get("ret") or "").endswith("StatsSummary") and SM.holder and (g.rec.get("self_ty") or "").split("<")[0] == SM.holder]
    for g in summ:
        okp, n_pairs, tables = True, 0, set()
        # the element loops of the summary function and of the private helpers of the same type it calls, whichever way they
        # are written (for / while-with-index / map().collect() / extend(map()) / fold): each step pairs a statistic of the
        # table with the counter read for that same statistic
        hosts = [g] + [F.fns[t_["rpath"]] for b_, t_ in g.calls() if t_["res"] == "item" and t_.get("rlocal") and t_.get("rpath") in F.fns
                       and (F.fns[t_["rpath"]].rec.get("self_ty") or "").split("<")[0] == SM.holder and t_["rpath"] != SM.prim_get and t_["rpath"] not in SM.read]
        total_c = None
        for h in hosts:
            for L_ in elem_loops(F, h, stop=lambda x: x in F.fns and F.fns[x].kind != "Closure"):
                E = None
                for s_ in L_.sources:
                    if s_[0] == "all" and s_[1][0] == "const" and isinstance(s_[1][1], str):
                        tables.add(s_[1][1])
                        E = ("elem",)
                    if s_[0] == "range":
                        total_c = s_[2]
                pairs = []
                for q in L_.bodies or []:
                    for e in q.events:
                        if e.generic.endswith("::insert") and len(e.args) >= 3:
                            pairs.append((e.args[1], e.args[2]))
                    r_ = q.ret
                    if r_[0] == "agg" and r_[1] == "tuple" and len(r_[3]) == 2:
                        pairs.append((r_[3][0][1], r_[3][1][1]))
                for k_, v_ in pairs:
                    k0 = strip_site(unclone_(k_))
                    if E is None:
                        # indexed form: the statistic is TABLE[i]
                        ix = [x for x in subexprs(k0) if x[0] == "index" and x[1][0] == "const" and x[2] == ELEM(0)]
                        if ix:
                            tables.add(ix[0][1][1])
                    n_pairs += 1
                    good_key = k0 == ELEM(0) or (k0[0] == "index" and k0[1][0] == "const" and k0[2] == ELEM(0))
                    good_val = v_[0] == "call" and v_[1] == SM.prim_get and len(v_[2]) >= 2 and strip_site(unclone_(v_[2][1])) == k0
                    okp = okp and good_key and good_val
        ctx.check(okp and n_pairs >= 1, "R16.9", "%s|summary-pairs-each-statistic-with-its-own-counter" % g.name,
                  "the summary stores, under each statistic of the table, the value read for that same statistic", g.where())
        stats_adt = [n_ for n_ in F.adts if n_.endswith("StatsType")]
        allv = [v["name"] for v in F.adts[stats_adt[0]]["variants"]] if stats_adt else []
        for tn in sorted(tables):
            body = (F.raw.get("const_bodies") or {}).get(tn)
            listed = []
            if body:
                for blk in body["blocks"]:
                    for st in blk["stmts"]:
                        if st["k"] == "assign" and st["rv"]["k"] == "agg" and st["rv"].get("adt") == (stats_adt[0] if stats_adt else None):
                            listed.append(st["rv"].get("variant"))
            ctx.check(bool(body) and sorted(listed) == sorted(allv), "R16.9", "%s|table-lists-every-statistic-once" % tn,
                      "the table the summary walks lists every variant of the statistics enum exactly once", g.where(), "listed %s of %s" % (sorted(listed), sorted(allv)))
        ctx.check(bool(tables), "R16.9", "%s|summary-walks-a-table" % g.name, "the summary is built from a constant table of the statistics", g.where())
    ctx.floor("R16.9", "summary functions", len(summ), 1)

    # ---- R16.5 hit ratio ---------------------------------------------------------------------------
    rh = {n for n, v in SM.read.items() if v == "CacheHits"}
    rm = {n for n, v in SM.read.items() if v == "CacheMisses"}
    ratios = [f for n, f in F.fns.items() if f.rec.get("ret") == "f64" and any(t.get("rpath") in rh for b, t in f.calls()) and any(t.get("rpath") in rm for b, t in f.calls())]
    ctx.floor("R16.5", "hit-ratio functions", len(ratios), 1)
    for f in ratios:
        ctx.touch(f)
        hb = [f.origin_call(b, t) for b, t in f.calls() if t.get("rpath") in rh][0]
        mb = [f.origin_call(b, t) for b, t in f.calls() if t.get("rpath") in rm][0]
        bad = []
        zero_paths = div_paths = 0
        rh_stop = lambda n: n in rh or n in rm
        hb_s, mb_s = strip_site(hb), strip_site(mb)

        def hits_zero(p):
            for a in p.atoms:
                if a[0] == "bool" and a[1][0] == "binop" and a[1][1] == "Eq" and {strip_site(a[1][2]), strip_site(a[1][3])} == {hb_s, ("const", 0, "u64")}:
                    return a[2]
            return None
        for p in ipaths(F, f, stop=rh_stop, depth=2):
            r = p.ret
            hz = hits_zero(p)
            if r[0] == "const" and r[1] == 0:
                zero_paths += 1
                if hz is not True:
                    bad.append(("returns 0 without having established hits == 0", p))
            else:
                div_paths += 1
                ok = (r[0] == "binop" and r[1] == "Div" and strip_site(strip_casts(r[2])) == hb_s
                      and strip_casts(r[3])[0] == "binop" and strip_casts(r[3])[1] == "Add"
                      and {strip_site(strip_casts(r[3])[2]), strip_site(strip_casts(r[3])[3])} == {hb_s, mb_s})
                if not ok:
                    bad.append(("ratio is not hits / (hits + misses): %s" % fmt(r), p))
                if hz is not False:
                    bad.append(("division path not guarded by hits != 0", p))
        ctx.check(not bad and div_paths >= 1, "R16.5", "%s|zero-implies-no-hits" % f.name,
                  "hit_ratio returns 0 only on a path that established hits == 0, and hits/(hits+misses) otherwise (%d zero path(s), %d ratio path(s))" % (zero_paths, div_paths),
                  f.where(), "; ".join("%s %s" % (w, q.show()) for w, q in bad[:3]))


def unclone_(e):
    """through references, derefs, copies and clones: the value itself"""
    from core import unclone
    e = unclone(e)
    while isinstance(e, tuple) and e and e[0] in ("ref", "deref") and len(e) >= 2 and isinstance(e[1], tuple):
        e = unclone(e[1])
    return e


def is_negated_delta(amt, D):
    """amt is the two's-complement negation of D (so that a wrapping add subtracts D): `!(D - 1)`, `D.wrapping_neg()`,
    `0 - D` / `0u64.wrapping_sub(D)`, casts anywhere"""
    def sc(e):
        while isinstance(e, tuple) and e and e[0] == "cast":
            e = e[1]
        return e
    a = sc(amt)
    D = strip_site(D)
    def is_d(x):
        return strip_site(sc(x)) == D
    if a[0] == "unop" and a[1] == "Not":
        inner = sc(a[2])
        return inner[0] == "binop" and inner[1] == "Sub" and is_d(inner[2]) and sc(inner[3])[0] == "const" and sc(inner[3])[1] == 1
    if a[0] == "call" and a[1].endswith("wrapping_neg") and len(a[2]) == 1:
        return is_d(a[2][0])
    if (a[0] == "binop" and a[1] == "Sub") or (a[0] == "call" and a[1].endswith("wrapping_sub") and len(a[2]) == 2):
        x, y = (a[2], a[3]) if a[0] == "binop" else (a[2][0], a[2][1])
        return sc(x)[0] == "const" and sc(x)[1] == 0 and is_d(y)
    return False


def check_delta_helper(ctx, g, wadd):
    """update_weight_stats(new, old): new > old => WeightAdded += new - old ; else WeightAdded += f(old - new)
    (decided per symbolic path, whichever way the comparison and the branches are written)"""
    from core import lt_truth
    NEW, OLD = ("param", 2), ("param", 3)
    ok_gt = ok_le = False
    for p in ipaths(ctx.facts, g, stop=lambda n: n in wadd, depth=2):
        calls = p.calls(wadd)
        gt = [lt_truth(a, lambda z: z == OLD, lambda z: z == NEW) for a in p.atoms]
        gt = [x for x in gt if x is not None]
        if not gt:
            # `new >= old` splits the same way: for new == old either branch adds 0
            from core import le_truth
            gt = [x for x in [le_truth(a, lambda z: z == OLD, lambda z: z == NEW) for a in p.atoms] if x is not None]
        if len(calls) != 1 or not gt:
            return False
        amt = calls[0].args[1]
        if gt[0]:
            if strip_casts(amt) != ("binop", "Sub", NEW, OLD):
                return False
            ok_gt = True
        else:
            if not is_negated_delta(amt, ("binop", "Sub", OLD, NEW)):
                return False
            ok_le = True
    return ok_gt and ok_le


def check_delta_paths(ctx, f, wadd, new, old):
    """f itself bumps WeightAdded for an update: on every path that applies the delta, exactly one bump; with new > old the
    amount is new - old, otherwise it is built from old - new"""
    from core import lt_truth
    ns, os_ = strip_site(new), strip_site(old)
    is_new = lambda z: strip_site(z) == ns
    is_old = lambda z: strip_site(z) == os_
    ok_gt = ok_le = False
    for p in ipaths(ctx.facts, f, stop=lambda n: n in wadd, depth=2):
        calls = p.calls(wadd)
        if not calls:
            continue
        gt = [lt_truth(a, is_old, is_new) for a in p.atoms]
        gt = [x for x in gt if x is not None]
        if not gt:
            from core import le_truth
            gt = [x for x in [le_truth(a, is_old, is_new) for a in p.atoms] if x is not None]
        if len(calls) != 1 or not gt:
            return False
        amt = calls[0].args[1]
        if gt[0]:
            if strip_site(strip_casts(amt)) != ("binop", "Sub", ns, os_):
                return False
            ok_gt = True
        else:
            if not is_negated_delta(amt, ("binop", "Sub", os_, ns)):
                return False
            ok_le = True
    return ok_gt and ok_le
