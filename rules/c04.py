"""C04 — delete hides the key immediately and releases it completely.  (DESIGN §4 C04)"""
from core import (strip_site, same_value, root_calls, fmt, enum_paths, path_atoms, path_calls, path_return, ret_variant,
                  inline_ctor, site_effects, is_effectful, mentions, subexprs, const_of, dashmap_call)
from livemodel import LiveModel
from storemodel import StoreModel
from weight import WeightModel
from tickermodel import TickerModel
from ackmodel import AckModel

WITNESSES = ['W1SoftDeletePrivate']
LEVEL = "other"
EXPLANATION = ("Structural conditions for 'delete hides at once and releases completely': the public delete "
               "soft-deletes the entry of the same key on the caller thread before the command is queued (so before "
               "it returns); the liveness predicate never reports a soft-deleted entry alive and every "
               "value-returning lookup applies it; the worker's delete handler removes the store entry, releases the "
               "weight of the removed id and answers Accepted, or answers Rejected(KeyDoesNotExist) without any "
               "effect when nothing was there; the soft-delete flag is only ever set by the hide function.")
ASSUMPTIONS = ["DashMap get_mut gives exclusive access to the entry while the flag is written"]


def run(ctx):
    F = ctx.facts
    L = LiveModel(ctx)
    S = StoreModel(ctx)
    M = WeightModel(ctx)
    A = AckModel(ctx)
    if not L.sv:
        ctx.bad("R04.0", "entry-type", "stored-entry type not found", detail="ANCHOR-MISSING")
        return
    # ---- hide functions: store `true` into the soft-delete field of a looked-up entry ------------
    hide = {}
    writers = []
    for name, f in F.fns.items():
        for (b, i, tgt, rv, st) in f.stores():
            if tgt[0] == "field" and tgt[2] == L.SOFT:
                writers.append((f, b, i, tgt, rv))
    # judged on the path-sensitive paths of the named function the write belongs to (a closure handed to a combinator -
    # `get_mut(k).map(|e| ..)`, `.into_iter().for_each(..)` - is run on the entry it is applied to)
    from sym import ipaths
    by_owner = {}

    def owners_of(g, depth=0):
        """the functions in which the written entry is *looked up*: the writer itself, or - when it only writes through a
        parameter (`fn mark_soft_deleted(&mut self)`) - the functions that call it, transitively"""
        g = F.parent_fn(g)
        soft_stores = [t_ for p_ in ipaths(F, g, stop=lambda n: False, depth=2) for t_, v_, w_ in p_.stores if t_[0] == "field" and t_[2] == L.SOFT]
        looked_up = bool(soft_stores) and all(root_calls(t_) for t_ in soft_stores)
        cs = {h.name: h for h in F.fns.values() for b_, t_ in h.calls() if t_.get("rpath") == g.name and t_["res"] == "item"}
        if looked_up or not cs or depth >= 3:
            return [g]
        out = []
        for h in cs.values():
            out += owners_of(h, depth + 1)
        return out
    for f, b, i, tgt, rv in writers:
        for o_ in {o.name for o in owners_of(f)}:
            by_owner.setdefault(o_, []).append((f, b, i, tgt, rv))
    for oname in sorted(by_owner):
        owner = F.fn(oname)
        seen = {}
        for p in ipaths(F, owner, stop=lambda n: False, depth=2):
            for tgt, val, w in p.stores:
                if tgt[0] == "field" and tgt[2] == L.SOFT:
                    seen.setdefault((w[0] if isinstance(w[0], str) else w[0].name, w[1], w[2]), []).append((tgt, val))
        for f, b, i, tgt0, rv0 in by_owner[oname]:
            inst = seen.get((f.name, b, i)) or [(tgt0, rv0)]
            ok = True
            meths = set()
            kparam = None
            for tgt, rv in inst:
                look = [c for c in root_calls(tgt) if dashmap_call({"rpath": c[1], "gargs": ["K", "StoredValue"]})]
                meth = dashmap_call({"rpath": look[0][1], "gargs": ["K", "StoredValue"]})[0] if look else None
                meths.add(meth)
                ok = ok and const_of(rv) == 1 and bool(look) and look[0][2][1][0] == "param"
                if ok:
                    kparam = look[0][2][1][1]
            ctx.check(ok, "R04.2", "%s|hide-writes-true-on-looked-up-entry" % oname,
                      "the soft-delete flag is set to true on the entry found under the function's key parameter (exclusive entry guard)", f.where(b, i), "; ".join("%s = %s" % (fmt(t_), fmt(v_)) for t_, v_ in inst[:2]))
            ctx.check(meths == {"get_mut"}, "R04.2", "%s|hide-uses-blocking-lookup" % oname,
                      "the hide must wait for the entry (DashMap::get_mut): a try_* lookup reports Locked while any reader holds the shard and would silently skip the hide, leaving the deleted value readable after delete() returned",
                      f.where(b, i), "lookup method: %s" % sorted(meths, key=str))
            if ok and meths == {"get_mut"}:
                hide[oname] = kparam
    ctx.floor("R04.2", "functions setting the soft-delete flag", len(hide), 1)
    # R04.6: constructors start with false; nobody else writes the field
    n_ctor = 0
    for name, f in F.fns.items():
        for b in sorted(f.live_blocks()):
            for i, s in enumerate(f.blocks[b]["stmts"]):
                if s["k"] == "assign" and s["rv"]["k"] == "agg" and s["rv"].get("adt") == L.sv:
                    n_ctor += 1
                    v = dict(f.origin_rvalue(s["rv"])[3])[L.SOFT]
                    ctx.check(const_of(v) == 0, "R04.6", "%s|entry-starts-visible" % name, "a new entry starts with the soft-delete flag cleared", f.where(b, i))
    ctx.floor("R04.6", "entry constructors", n_ctor, 1)
    ctx.check(L.soft_vis != "pub", "R04.6", "soft-delete-field-private", "the soft-delete flag is not writable from outside the crate", detail=L.soft_vis)

    # ---- R04.1: public delete hides before queueing ----------------------------------------------
    n_api = 0
    for name, f in F.fns.items():
        if not f.rec.get("reachable") or f.kind == "Closure":
            continue
        sends = []
        for bb, t in f.calls():
            if t.get("rpath") in A.send_fns:
                cmd = f.op_origin(t["args"][1])
                if cmd[0] == "agg" and cmd[2] == "Delete":
                    sends.append((bb, t, cmd))
        if not sends:
            continue
        n_api += 1
        ctx.touch(f)
        for bb, t, cmd in sends:
            key = cmd[3][0][1]
            hides = [(b2, t2) for b2, t2 in f.calls() if t2.get("rpath") in hide and same_value(f.op_origin(t2["args"][hide[t2["rpath"]] - 1]), key)]
            ok = bool(hides) and any(f.block_dominates(b2, bb) and b2 != bb for b2, t2 in hides)
            ctx.check(ok, "R04.1", "%s|hide-dominates-queueing" % name,
                      "delete() soft-deletes the entry of the same key before the Delete command is queued, hence before it returns", f.where(bb), "key=%s" % fmt(key))
    ctx.floor("R04.1", "public APIs queueing a Delete", n_api, 1)
    delete_always_queues(ctx, A, "R04.8")

    # ---- R04.3 / R04.4 shared with C09 -------------------------------------------------------------
    import c09
    for o in ctx.own_of("c09"):
        if o["rule"] in ("R09.1", "R09.0"):
            ctx._add(o["status"], "R04.3", o["key"].split("|", 1)[1], o["desc"], o["where"], o["detail"])
        if o["rule"] == "R09.5":
            ctx._add(o["status"], "R04.4", o["key"].split("|", 1)[1], o["desc"], o["where"], o["detail"])

    # ---- R04.5 worker delete table ---------------------------------------------------------------------
    dec_fns = {s["fn"].name for s in M.dec_sites}
    release = set(dec_fns)
    changed = True
    while changed:
        changed = False
        for n, g in F.fns.items():
            if n in release or g.kind == "Closure":
                continue
            cs = [t for b, t in g.calls() if t["res"] == "item" and t.get("rlocal")]
            if cs and all(t.get("rpath") in release for t in cs) and len(g.live_blocks()) <= 4:
                release.add(n)
                changed = True
    handlers = [g for n, g in F.fns.items() if g.kind != "Closure" and g.rec.get("ret", "").endswith("CommandStatus")
                and any(t.get("rpath") in S.remove_fns for b, t in g.calls())]
    ctx.floor("R04.5", "delete handlers", len(handlers), 1)
    for h in handlers:
        ctx.touch(h)
        bad = []
        rows = 0
        for p in enum_paths(h):
            atoms = path_atoms(h, p)
            calls = path_calls(h, p)
            rem = [(b, t) for b, t in calls if t.get("rpath") in S.remove_fns]
            if len(rem) != 1:
                bad.append(("%d removals" % len(rem), p))
                continue
            removed = h.origin_call(rem[0][0], rem[0][1])
            some = [a for a in atoms if a[0] == "enum" and strip_site(a[1]) == strip_site(removed)]
            r = path_return(h, p, atoms)
            rows += 1
            if some and some[0][2] == ("Some",):
                rel = [(b, t) for b, t in calls if t.get("rpath") in release]
                if len(rel) != 1:
                    bad.append(("removed entry: weight released %d times" % len(rel), p))
                if not (r[0] == "agg" and r[2] == "Accepted"):
                    bad.append(("removed entry: status is not Accepted", p))
            else:
                after = p[p.index(rem[0][0]) + 1:]
                eff = [b for b in after if h.term(b)["k"] == "call" and is_effectful(site_effects(F, h, b))]
                if eff:
                    bad.append(("nothing removed but effects follow", p))
                if not (r[0] == "agg" and r[2] == "Rejected" and r[3][0][1][0] == "agg" and r[3][0][1][2] == "KeyDoesNotExist"):
                    bad.append(("nothing removed: status is not Rejected(KeyDoesNotExist)", p))
        ctx.check(not bad and rows >= 2, "R04.5", "%s|delete-table" % h.name,
                  "worker delete: entry removed => weight of that id released once and Accepted; nothing there => Rejected(KeyDoesNotExist) and no effect (%d rows)" % rows,
                  h.where(), "; ".join("%s via %s" % x for x in bad[:3]))
        # the key removed is the command's key
        # (the key removed comes from the handler's parameters, and the worker hands it the Delete command's payload there)
        for b, t in h.calls():
            if t.get("rpath") in S.remove_fns:
                k = h.op_origin(t["args"][1])
                from_params = mentions(k, lambda s: s[0] == "param") and not mentions(k, lambda s: s[0] in ("var", "unknown", "built", "phi", "const") or (s[0] == "call" and s[1] != "clone"))
                why = fmt(k)
                if from_params:
                    import c11
                    from core import subst_params
                    W_ = c11.find_worker(ctx, A)
                    hits = []
                    for p_ in (c11.worker_paths(ctx, A, W_) if W_ is not None else []):
                        for e in p_.calls({h.name}):
                            if any(mentions(a, lambda s: s[0] == "variant" and s[2] == "Delete") for a in e.args):
                                hits.append(mentions(subst_params(k, list(e.args)), lambda s: s[0] == "variant" and s[2] == "Delete"))
                    from_params = bool(hits) and all(hits)
                    why = "%s; worker dispatch passes the Delete payload there: %s" % (fmt(k), hits[:4])
                ctx.check(from_params, "R04.5", "%s|removes-command-key" % h.name, "the handler removes the key carried by the command", h.where(b), why)
    # R04.7 (= R01.4): weight is only ever charged to ids present in the weight map, so a late weight update cannot
    # re-charge a key whose delete was acknowledged
    from weight import accounting_flow
    accounting_flow(ctx, M, "R04.7")
    # R04.9 (= R05.3): the worker's Delete removes *by key*; if a put could overwrite an entry that is still in the store
    # (e.g. one only hidden by delete() whose Delete command is queued behind that put), the later Delete removes the new
    # incarnation and the hidden one's weight is never released although its delete is acknowledged Accepted
    for o in ctx.own_of("c05"):
        if o["rule"] == "R05.3":
            ctx._add(o["status"], "R04.9", o["key"].split("|", 1)[1], o["desc"] + " [an acknowledged delete must release the weight of the entry it hid]", o["where"], o["detail"])
    # release == R05.2 (id from the removed entry)
    import c05
    for o in ctx.own_of("c05"):
        if o["rule"] == "R05.2" and ("release-iff-removed" in o["key"] or ("returns-removed-id" in o["key"] and any(h.name and any(t.get("rpath") == o["key"].split("|")[1] for b, t in h.calls()) for h in handlers))):
            ctx._add(o["status"], "R04.5", o["key"].split("|", 1)[1], o["desc"], o["where"], o["detail"])


def delete_always_queues(ctx, A, RULE):
    """every call of the public delete that is not refused for shutdown queues a Delete command: whether the key looks
    present (or already hidden) on the caller thread says nothing about what is queued ahead of it"""
    from core import bool_branches, enum_paths, path_calls, path_return, ret_variant
    F = ctx.facts
    for name, f in F.fns.items():
        if not f.rec.get("reachable") or f.kind == "Closure":
            continue
        sends = []
        for bb, t in f.calls():
            if t.get("rpath") in A.send_fns:
                cmd = f.op_origin(t["args"][1])
                if cmd[0] == "agg" and cmd[2] == "Delete":
                    sends.append(bb)
        if not sends:
            continue
        bad = []
        for p in enum_paths(f):
            r = path_return(f, p)
            refused = (ret_variant(r) == ("Err",)) or (r[0] == "call" and r[1] in F.fns and "shutdown" in r[1])
            if refused:
                continue
            if not any(b in sends for b in p):
                bad.append(p)
        ctx.check(not bad, RULE, "%s|delete-always-queued" % name,
                  "unless the cache is shutting down, delete() always queues a Delete command (it must not answer on the spot from what the caller thread sees: a put of the same key may be queued ahead)",
                  f.where(), "paths returning without queueing: %s" % [q[:8] for q in bad[:2]])
