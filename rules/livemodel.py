"""Liveness vocabulary (C02/C04/C07/C08/C09): the stored-entry type, its soft-delete and expiry fields, the
liveness predicate, and the 'entry found => liveness applied' analysis supporting both the combinator idiom
(Option::filter(..).map(..)) and the explicit-branch idiom."""
from core import (strip_site, root_calls, subexprs, enum_paths, path_atoms, path_return, ret_variant, mentions,
                  is_call_to, fmt, dashmap_call)


class LiveModel:
    def __init__(self, ctx):
        F = self.F = ctx.facts
        self.sv = None
        for name, adt in F.adts.items():
            if adt["kind"] != "Struct":
                continue
            fs = adt["variants"][0]["fields"]
            soft = [f["name"] for f in fs if f["ty"] == "bool"]
            exp = [f["name"] for f in fs if f["ty"].startswith("std::option::Option<std::time::SystemTime")]
            if len(soft) == 1 and len(exp) == 1 and any(f["ty"] == "u64" for f in fs):
                self.sv = name
                self.SOFT, self.EXP = soft[0], exp[0]
                self.ID = [f["name"] for f in fs if f["ty"] == "u64"][0]
                self.soft_vis = [f["vis"] for f in fs if f["name"] == soft[0]][0]
        self.alive_fns = set()
        self.expired_fns = set()     # helpers: "this entry's expiry has passed" (no soft-delete involved)
        if self.sv:
            short = self.sv.split("::")[-1]
            cands = [f for name, f in F.fns.items() if f.rec.get("ret") == "bool" and f.kind != "Closure" and f.argc >= 1 and short in f.locals[1]["ty"]]
            for f in cands:
                if f.calls_to("Clock::has_passed") and not reads_field(f, self.SOFT):
                    self.expired_fns.add(f.name)
            for f in cands:
                if reads_field(f, self.SOFT) and (f.calls_to("Clock::has_passed") or any(t.get("rpath") in self.expired_fns for b, t in f.calls())):
                    self.alive_fns.add(f.name)

    # ---- closure predicates ---------------------------------------------------------------------
    def closure_applies_alive(self, cdef):
        c = self.F.fn(cdef)
        if c is None:
            return False
        r = c.origin_local(0)
        return r[0] == "call" and r[1] in self.alive_fns and r[2] and rooted_in_param(r[2][0], 2)

    def closure_maps_param(self, cdef):
        c = self.F.fn(cdef)
        if c is None:
            return False
        r = c.origin_local(0)
        bad = mentions(r, lambda s: s[0] in ("env", "upvar", "var", "unknown", "phi") or (s[0] == "param" and s[1] != 2))
        return not bad and mentions(r, lambda s: s == ("param", 2))

    def chain_filtered(self, e, lookup):
        """e is derived from `lookup` through Option combinators; returns (reaches_lookup, filtered_by_alive)"""
        filtered = False
        cur = e
        for _ in range(8):
            if strip_site(cur) == strip_site(lookup):
                return True, filtered
            if cur[0] == "call" and cur[1].startswith("std::option::Option::<T>::") and cur[2]:
                meth = cur[1].split("::")[-1]
                if meth == "filter" and len(cur[2]) == 2 and cur[2][1][0] == "agg":
                    if self.closure_applies_alive(cur[2][1][1]):
                        filtered = True
                    cur = cur[2][0]
                    continue
                if meth in ("map",) and len(cur[2]) == 2 and cur[2][1][0] == "agg":
                    if not self.closure_maps_param(cur[2][1][1]):
                        return False, filtered
                    cur = cur[2][0]
                    continue
                if meth in ("is_some", "is_none", "as_ref", "as_mut"):
                    cur = cur[2][0]
                    continue
            return False, filtered
        return False, filtered

    def lookup_applies_liveness(self, f, bb, t):
        """does function f apply the liveness predicate to the entry found by the lookup at bb before its
        outcome depends on it?  returns (ok, form)"""
        lookup = f.origin_call(bb, t)
        r = f.origin_local(0)
        # form A: the returned value / the value whose presence is tested is a filter chain
        cands = [r] + [s for s in subexprs(r) if s[0] == "call" and s[1].startswith("std::option::Option::<T>::")]
        for b2, t2 in f.calls():
            cands.append(f.origin_call(b2, t2))
        for c in cands:
            reach, filt = self.chain_filtered(c, lookup)
            if reach and filt:
                # every use of the raw lookup result must go through the filter
                raw_uses = [b2 for b2, t2 in f.calls() if any(strip_site(f.op_origin(a)) == strip_site(lookup) for a in t2["args"])
                            and not ("Option::<T>::filter" in t2["callee"])]
                if not raw_uses:
                    return True, "combinator"
        # form B: explicit branches
        paths = enum_paths(f)
        found_paths = 0
        for p in paths:
            if bb not in p:
                continue
            atoms = path_atoms(f, p)
            some = [a for a in atoms if a[0] == "enum" and strip_site(a[1]) == strip_site(lookup) and a[2] == ("Some",)]
            if not some:
                continue
            found_paths += 1
            alive = [a for a in atoms if a[0] == "bool" and a[1][0] == "call" and a[1][1] in self.alive_fns
                     and any(strip_site(c) == strip_site(lookup) for c in root_calls(a[1][2][0]))]
            if not alive:
                return False, "branch: a path uses the found entry without testing liveness"
        if found_paths:
            return True, "branch"
        return False, "the found entry is used without the liveness predicate"


def rooted_in_param(e, i):
    while isinstance(e, tuple) and e and e[0] in ("field", "variant", "index", "cast"):
        e = e[1]
    return e == ("param", i)


def reads_field(f, name):
    for b in f.live_blocks():
        for st in f.blocks[b]["stmts"]:
            if st["k"] == "assign":
                rv = st["rv"]
                ops = []
                if "op" in rv and isinstance(rv["op"], dict):
                    ops.append(rv["op"])
                for k in ("a", "b"):
                    if isinstance(rv.get(k), dict):
                        ops.append(rv[k])
                places = [o["place"] for o in ops if o.get("k") in ("copy", "move")]
                if rv["k"] in ("ref", "discr"):
                    places.append(rv["place"])
                for p in places:
                    if p["l"] == 1 and any(isinstance(e, dict) and e.get("f") == name for e in p["p"]):
                        return True
    return False
