"""Liveness vocabulary (C02/C04/C07/C08/C09): the stored-entry type, its soft-delete and expiry fields, the
liveness predicate, and the 'entry found => liveness applied' analysis supporting both the combinator idiom
(Option::filter(..).map(..)) and the explicit-branch idiom."""
from core import (strip_site, root_calls, subexprs, enum_paths, path_atoms, path_return, ret_variant, mentions,
                  is_call_to, fmt, dashmap_call)
from sym import ipaths


class LiveModel:
    def __init__(self, ctx):
        F = self.F = ctx.facts
        self.sv = None
        for name, adt in F.adts.items():
            if adt["kind"] != "Struct":
                continue
            fs = adt["variants"][0]["fields"]
            soft = [f["name"] for f in fs if f["ty"] == "bool"]
            exp = [f["name"] for f in fs if f["ty"].startswith("std::option::Option<std::time::SystemTime")]
            if len(soft) == 1 and len(exp) == 1 and any(f["ty"] == "u64" for f in fs):
                self.sv = name
                self.SOFT, self.EXP = soft[0], exp[0]
                self.ID = [f["name"] for f in fs if f["ty"] == "u64"][0]
                self.soft_vis = [f["vis"] for f in fs if f["name"] == soft[0]][0]
        self.alive_fns = set()
        self.alive_param = {}        # liveness predicate -> index of its entry parameter
        self.expired_fns = set()     # helpers: "this entry's expiry has passed" (no soft-delete involved)
        self._paths = {}
        if self.sv:
            short = self.sv.split("::")[-1]
            cands = [f for name, f in F.fns.items() if f.rec.get("ret") == "bool" and f.kind != "Closure" and f.argc >= 1
                     and any(short + "<" in f.locals[i]["ty"] or f.locals[i]["ty"].endswith(short) for i in range(1, f.argc + 1))]
            for f in cands:
                if f.calls_to("Clock::has_passed") and not reads_field(f, self.SOFT):
                    self.expired_fns.add(f.name)
            # a liveness predicate = a bool function over an entry whose outcome depends (directly or through the
            # helpers it calls) on that entry's soft-delete flag AND on the clock having passed something
            for f in cands:
                for pi in range(1, f.argc + 1):
                    if short not in f.locals[pi]["ty"]:
                        continue
                    ps = self.paths_of(f)
                    soft = ("field", ("param", pi), self.SOFT)
                    uses_soft = any(mentions(a[1], lambda s_: s_ == soft) for p in ps for a in p.atoms) or any(mentions(p.ret, lambda s_: s_ == soft) for p in ps)
                    uses_clock = any(mentions(a[1], lambda s_: is_call_to(s_, "Clock::has_passed")) for p in ps for a in p.atoms) or \
                        any(mentions(p.ret, lambda s_: is_call_to(s_, "Clock::has_passed")) for p in ps)
                    if uses_soft and uses_clock:
                        self.alive_fns.add(f.name)
                        self.alive_param[f.name] = pi

    def paths_of(self, f):
        if f.name not in self._paths:
            self._paths[f.name] = ipaths(self.F, f, stop=lambda n: False, depth=4)
        return self._paths[f.name]

    def alive_table(self, f):
        """rows (soft, expiry, passed, result) of a liveness predicate, one per symbolic path with helpers and
        combinators inlined, a symbolic bool result split in its two outcomes; and the rows that contradict
        `alive <=> not soft-deleted and (no expiry or not has_passed(that expiry))`"""
        pi = self.alive_param[f.name]
        soft_e = ("field", ("param", pi), self.SOFT)
        exp_e = ("field", ("param", pi), self.EXP)
        payload = ("field", ("variant", exp_e, "Some"), "0")
        rows, bad = [], []
        for p in self.paths_of(f):
            outcomes = []
            r = p.ret
            neg = False
            while r[0] == "unop" and r[1] == "Not":
                r, neg = r[2], not neg
            if r[0] == "const":
                outcomes.append((list(p.atoms), bool(r[1]) != neg))
            else:
                outcomes.append((list(p.atoms) + [("bool", r, True, None)], not neg))
                outcomes.append((list(p.atoms) + [("bool", r, False, None)], neg))
            for atoms, result in outcomes:
                soft = exp = passed = None
                clock_ok = True
                contradictory = False
                for a in atoms:
                    if a[0] == "bool" and strip_site(a[1]) == soft_e:
                        contradictory |= soft is not None and soft != a[2]
                        soft = a[2]
                    if a[0] == "enum" and strip_site(a[1]) == exp_e:
                        exp = a[2]
                    if a[0] == "bool" and is_call_to(a[1], "Clock::has_passed"):
                        of_entry = len(a[1][2]) == 2 and strip_site(a[1][2][1]) == payload
                        if not of_entry:
                            clock_ok = False
                        contradictory |= passed is not None and passed != a[2]
                        passed = a[2]
                    if a[0] == "bool" and a[1][0] == "call" and a[1][1] in self.expired_fns and a[1][2] and strip_site(a[1][2][0]) == ("param", pi):
                        passed = a[2]
                        exp = exp or ("Some",)
                if contradictory:
                    continue
                rows.append((soft, exp, passed, result))
                if not clock_ok:
                    bad.append("has_passed is asked about something else than the entry's own expiry")
                should = (soft is False) and (exp == ("None",) or passed is False)
                decided = soft is True or (soft is False and (exp == ("None",) or passed is not None))
                if not decided:
                    bad.append("outcome %s reached without deciding soft-delete and expiry (soft=%s expiry=%s passed=%s)" % (result, soft, exp, passed))
                elif result != should:
                    bad.append("soft=%s expiry=%s passed=%s reported %s" % (soft, exp, passed, "alive" if result else "not alive"))
        return rows, bad

    # ---- closure predicates ---------------------------------------------------------------------
    def closure_applies_alive(self, cdef):
        c = self.F.fn(cdef)
        if c is None:
            return False
        r = c.origin_local(0)
        return r[0] == "call" and r[1] in self.alive_fns and r[2] and rooted_in_param(r[2][0], 2)

    def closure_maps_param(self, cdef):
        c = self.F.fn(cdef)
        if c is None:
            return False
        r = c.origin_local(0)
        bad = mentions(r, lambda s: s[0] in ("env", "upvar", "var", "unknown", "phi") or (s[0] == "param" and s[1] != 2))
        return not bad and mentions(r, lambda s: s == ("param", 2))

    def chain_filtered(self, e, lookup):
        """e is derived from `lookup` through Option combinators; returns (reaches_lookup, filtered_by_alive)"""
        filtered = False
        cur = e
        for _ in range(8):
            if strip_site(cur) == strip_site(lookup):
                return True, filtered
            if cur[0] == "call" and cur[1].startswith("std::option::Option::<T>::") and cur[2]:
                meth = cur[1].split("::")[-1]
                if meth == "filter" and len(cur[2]) == 2 and cur[2][1][0] == "agg":
                    if self.closure_applies_alive(cur[2][1][1]):
                        filtered = True
                    cur = cur[2][0]
                    continue
                if meth in ("map",) and len(cur[2]) == 2 and cur[2][1][0] == "agg":
                    if not self.closure_maps_param(cur[2][1][1]):
                        return False, filtered
                    cur = cur[2][0]
                    continue
                if meth in ("is_some", "is_none", "as_ref", "as_mut"):
                    cur = cur[2][0]
                    continue
            return False, filtered
        return False, filtered

    def lookup_applies_liveness(self, f, bb, t):
        """does function f apply the liveness predicate to the entry found by the lookup at bb before its outcome
        depends on it?  On every symbolic path of f (helpers, closures and Option combinators inlined; the liveness
        predicates opaque) on which the lookup at bb found an entry, the path must have tested a liveness predicate
        on that very entry.  returns (ok, form)"""
        stop = lambda n: n in self.alive_fns
        paths = ipaths(self.F, f, stop=stop, depth=3)
        found = 0
        for p in paths:
            L = [e for e in p.events if e.fn is f and e.bb == bb]
            if not L:
                continue
            res = L[0].res
            if p.variant_of(res) != ("Some",):
                continue
            found += 1
            # a predicate that *returns* the liveness answer (`let alive = e.is_alive(c); drop(e); alive`) decides on it
            # just as one that branches on it: judge each outcome of a symbolic bool result
            from sym import bool_outcomes
            outcomes = [at for at, r_ in bool_outcomes(p)] if f.rec.get("ret") == "bool" else [p.atoms]
            for atoms in outcomes:
                tested = False
                for a in atoms:
                    if a[0] == "bool" and a[1][0] == "call" and a[1][1] in self.alive_fns:
                        pi = self.alive_param.get(a[1][1], 1)
                        arg = a[1][2][pi - 1] if len(a[1][2]) >= pi else None
                        if arg is not None and any(strip_site(c) == strip_site(res) for c in root_calls(arg)):
                            tested = True
                if not tested:
                    return False, "the found entry is used without the liveness predicate (%s)" % p.show()
        if found:
            return True, "%d symbolic path(s) on which the entry was found, each tests liveness of that entry" % found
        return False, "the found entry is used without the liveness predicate"


def rooted_in_param(e, i):
    while isinstance(e, tuple) and e and e[0] in ("field", "variant", "index", "cast"):
        e = e[1]
    return e == ("param", i)


def reads_field(f, name):
    for b in f.live_blocks():
        for st in f.blocks[b]["stmts"]:
            if st["k"] == "assign":
                rv = st["rv"]
                ops = []
                if "op" in rv and isinstance(rv["op"], dict):
                    ops.append(rv["op"])
                for k in ("a", "b"):
                    if isinstance(rv.get(k), dict):
                        ops.append(rv[k])
                places = [o["place"] for o in ops if o.get("k") in ("copy", "move")]
                if rv["k"] in ("ref", "discr"):
                    places.append(rv["place"])
                for p in places:
                    if p["l"] == 1 and any(isinstance(e, dict) and e.get("f") == name for e in p["p"]):
                        return True
    return False
