"""C03 — no spurious loss: without memory pressure an accepted key stays readable (necessary structure).  (DESIGN §4 C03)"""
from core import (strip_site, fmt, mentions, subexprs, dashmap_call, site_effects)
from storemodel import StoreModel
from weight import WeightModel
from tickermodel import TickerModel
import c06
import c10
import c13

WITNESSES = ['W5InternalsUnreachable']
LEVEL = "other"
EXPLANATION = ("Nothing can remove a store entry except three guarded mechanisms: the closed set of functions that "
               "remove/clear store entries is reachable only from the command worker (explicit Delete and eviction), "
               "the sweeper (expiry) and shutdown; eviction happens only under memory pressure for the incoming "
               "weight and only for the sampled victim (R06); the sweeper's hook fires only for entries whose expiry "
               "has passed (R10.2); weight release and the store-removal hook are guarded by the id still being "
               "charged, and ids are fresh per incarnation, so a stale expiry entry cannot touch a newer incarnation; "
               "access counting, sketch ageing and reads reach no remover. The history statement itself is not computed.")
ASSUMPTIONS = ["the sweeper holds its shard lock across the hook and the worker's Delete takes the same shard lock before completing, which serialises by-key removal with re-insertion"]


def run(ctx):
    F = ctx.facts
    S = StoreModel(ctx)
    M = WeightModel(ctx)
    T = TickerModel(ctx)
    spawn = F.spawn_closures()
    removers = set()
    for m in ("remove", "clear", "retain", "remove_if", "remove_if_mut", "alter", "alter_all", "shrink_to_fit"):
        for f, bb, t in S.ops.get(m, []):
            if m in ("remove", "clear", "retain", "remove_if", "remove_if_mut"):
                removers.add(f.name)
    ctx.floor("R03.1", "functions removing entries from the value store", len(removers), 2)
    # every store operation kind is known (a new kind of store mutation must be classified)
    known = {"try_get", "try_get_mut", "view", "insert", "remove", "clear", "get", "get_mut", "contains_key", "len", "is_empty", "iter", "retain", "remove_if", "remove_if_mut", "entry", "iter_mut", "alter", "alter_all", "shrink_to_fit", "capacity", "new", "with_capacity", "with_shard_amount", "with_capacity_and_shard_amount", "with_hasher", "with_capacity_and_hasher", "with_capacity_and_hasher_and_shard_amount"}
    unknown = sorted(set(S.ops) - known)
    ctx.check(not unknown, "R03.1", "store-ops-classified", "every kind of operation applied to the value store is classified", detail=str(unknown))
    mutating_other = sorted(m for m in S.ops if m in ("entry", "iter_mut", "alter", "alter_all"))
    ctx.check(not mutating_other, "R03.1", "no-unmodelled-store-mutation", "the store is mutated only through insert / get_mut / remove / clear", detail=str(mutating_other))

    # who reaches a remover
    cmd_threads, sweep_threads, other_threads = [], [], []
    for cdef in sorted(spawn):
        c = F.fn(cdef)
        reach = set()
        for nid in F.insts_of(cdef):
            reach |= {F.def_of(n) for n in F.inst_reach([nid], stop=lambda n, me=nid: n != me and F.def_of(n) in spawn)}
        if not (reach & removers):
            continue
        recv_ty = " ".join(" ".join(t.get("gargs", [])) for b, t in c.calls() if t["callee"].endswith("Receiver::<T>::recv"))
        if "CommandAcknowledgementPair" in recv_ty:
            cmd_threads.append(cdef)
        elif any(o["fn"].name == cdef and o["kind"] == "retain" for o in T.ops):
            sweep_threads.append(cdef)
        else:
            other_threads.append(cdef)
    ctx.check(len(cmd_threads) == 1 and len(sweep_threads) == 1 and not other_threads, "R03.1", "removing-threads",
              "store entries can be removed by exactly two background threads: the command worker and the expiry sweeper (never the access-count consumer)",
              detail="worker=%s sweeper=%s other=%s" % (cmd_threads, sweep_threads, other_threads))
    api = []
    for name, f in F.fns.items():
        if f.rec.get("reachable") and f.kind != "Closure":
            hit = set()
            for nid in F.insts_of(name):
                hit |= {F.def_of(n) for n in F.inst_reach([nid], stop=lambda n: F.def_of(n) in spawn)} & removers
            if hit:
                api.append(name)
    allowed = [n for n in api if F.fn(n).calls_to("Atomic::<bool>::compare_exchange")]
    ctx.check(sorted(api) == sorted(allowed) and len(allowed) <= 1, "R03.1", "no-caller-thread-removal",
              "on a caller's thread only shutdown() clears the store; no read, put, upsert, delete or statistics call removes an entry directly", detail=str(sorted(set(api) - set(allowed))))

    # ---- R03.2 pressure (shared with C06) -------------------------------------------------------------
    share(ctx, c06, {"R06.1": "R03.2", "R06.2": "R03.2"}, only=("admission-table", "evict-victim-only-under-pressure", "loop-guard", "victim-from-sample-min"))
    # ---- R03.3 expiry (shared with C10) ------------------------------------------------------------------
    share(ctx, c10, {"R10.2": "R03.3", "R10.7": "R03.3", "R10.5": "R03.4", "R10.1": "R03.3"}, only=("hook-iff-not-kept", "retain-iff-now-le-expiry", "sweeps-shard-of-now", "one-now-per-sweep",
                                                                                 "release-and-hook-only-if-id-present", "ids-fresh", "insert-under-own-expiry", "move-old-to-new"))
    # ---- R03.6 the hooks remove by the key recorded with the released id ------------------------------------
    n_hooks = 0
    for name, f in F.fns.items():
        if f.kind != "Closure":
            continue
        rem = [(b, t) for b, t in f.calls() if t.get("rpath") in removers]
        if rem and f.argc == 2:
            n_hooks += 1
            for b, t in rem:
                k = f.op_origin(t["args"][1])
                ctx.check(k == ("param", 2), "R03.6", "%s|hook-removes-given-key" % name, "a removal hook removes exactly the key it is handed (the one recorded with the released id)", f.where(b), fmt(k))
    ctx.floor("R03.6", "store-removal hooks", n_hooks, 2)
    # eviction in the put path must not touch the key being inserted: the victim id comes from the sample of *charged* ids,
    # and the incoming id is charged only after eviction (R05.1: add after create_space)


def share(ctx, mod, rulemap, only):
    sub = type(ctx)(ctx.prop, ctx.facts, ctx.tier, ctx.config)
    mod.run(sub)
    for o in sub.obligations:
        if o["rule"] in rulemap and any(x in o["key"] for x in only):
            ctx._add(o["status"], rulemap[o["rule"]], o["key"].split("|", 1)[1], o["desc"], o["where"], o["detail"])
