"""C03 — no spurious loss: without memory pressure an accepted key stays readable (necessary structure).  (DESIGN §4 C03)"""
from core import (strip_site, fmt, mentions, subexprs, dashmap_call, site_effects)
from storemodel import StoreModel
from weight import WeightModel
from tickermodel import TickerModel
import c10
import c13

WITNESSES = ['W5InternalsUnreachable']
LEVEL = "other"
EXPLANATION = ("Nothing can remove a store entry except three guarded mechanisms: the closed set of functions that "
               "remove/clear store entries is reachable only from the command worker (explicit Delete and eviction), "
               "the sweeper (expiry) and shutdown; eviction happens only under memory pressure for the incoming "
               "weight and only for the sampled victim (R06); the sweeper's hook fires only for entries whose expiry "
               "has passed (R10.2); weight release and the store-removal hook are guarded by the id still being "
               "charged, and ids are fresh per incarnation, so a stale expiry entry cannot touch a newer incarnation; "
               "access counting, sketch ageing and reads reach no remover. The history statement itself is not computed.")
ASSUMPTIONS = ["the sweeper holds its shard lock across the hook and the worker's Delete takes the same shard lock before completing, which serialises by-key removal with re-insertion"]


def run(ctx):
    F = ctx.facts
    S = StoreModel(ctx)
    M = WeightModel(ctx)
    T = TickerModel(ctx)
    spawn = F.spawn_closures()
    removers = set()
    for m in ("remove", "clear", "retain", "remove_if", "remove_if_mut", "alter", "alter_all", "shrink_to_fit"):
        for f, bb, t in S.ops.get(m, []):
            if m in ("remove", "clear", "retain", "remove_if", "remove_if_mut"):
                removers.add(f.name)
    ctx.floor("R03.1", "functions removing entries from the value store", len(removers), 2)
    # every store operation kind is known (a new kind of store mutation must be classified)
    known = {"try_get", "try_get_mut", "view", "insert", "remove", "clear", "get", "get_mut", "contains_key", "len", "is_empty", "iter", "retain", "remove_if", "remove_if_mut", "entry", "iter_mut", "alter", "alter_all", "shrink_to_fit", "capacity", "new", "with_capacity", "with_shard_amount", "with_capacity_and_shard_amount", "with_hasher", "with_capacity_and_hasher", "with_capacity_and_hasher_and_shard_amount"}
    unknown = sorted(set(S.ops) - known)
    ctx.check(not unknown, "R03.1", "store-ops-classified", "every kind of operation applied to the value store is classified", detail=str(unknown))
    mutating_other = sorted(m for m in S.ops if m in ("entry", "iter_mut", "alter", "alter_all"))
    ctx.check(not mutating_other, "R03.1", "no-unmodelled-store-mutation", "the store is mutated only through insert / get_mut / remove / clear", detail=str(mutating_other))

    # who reaches a remover
    cmd_threads, sweep_threads, other_threads = [], [], []
    for cdef in sorted(spawn):
        c = F.fn(cdef)
        reach = set()
        for nid in F.insts_of(cdef):
            reach |= {F.def_of(n) for n in F.inst_reach([nid], stop=lambda n, me=nid: n != me and F.def_of(n) in spawn)}
        if not (reach & removers):
            continue
        recv_ty = " ".join(" ".join(t.get("gargs", [])) for b, t in c.calls() if t["callee"].endswith("Receiver::<T>::recv"))
        if "CommandAcknowledgementPair" in recv_ty:
            cmd_threads.append(cdef)
        elif any(o["fn"].name == cdef and o["kind"] == "retain" for o in T.ops):
            sweep_threads.append(cdef)
        else:
            other_threads.append(cdef)
    ctx.check(len(cmd_threads) == 1 and len(sweep_threads) == 1 and not other_threads, "R03.1", "removing-threads",
              "store entries can be removed by exactly two background threads: the command worker and the expiry sweeper (never the access-count consumer)",
              detail="worker=%s sweeper=%s other=%s" % (cmd_threads, sweep_threads, other_threads))
    api = []
    for name, f in F.fns.items():
        if f.rec.get("reachable") and f.kind != "Closure":
            hit = set()
            for nid in F.insts_of(name):
                hit |= {F.def_of(n) for n in F.inst_reach([nid], stop=lambda n: F.def_of(n) in spawn)} & removers
            if hit:
                api.append(name)
    allowed = [n for n in api if F.fn(n).calls_to("Atomic::<bool>::compare_exchange", "Atomic::<bool>::swap")]
    ctx.check(sorted(api) == sorted(allowed) and len(allowed) <= 1, "R03.1", "no-caller-thread-removal",
              "on a caller's thread only shutdown() clears the store; no read, put, upsert, delete or statistics call removes an entry directly", detail=str(sorted(set(api) - set(allowed))))

    # ---- R03.2 eviction only under memory pressure -------------------------------------------------------
    pressure(ctx, M)
    # ---- R03.3 / R03.4 expiry and id guard (the parts of C10 that are necessary for 'no spurious loss') --------
    share(ctx, c10, {"R10.2": "R03.3", "R10.7": "R03.3", "R10.5": "R03.4"}, only=("hook-iff-not-kept", "retain-iff-now-le-expiry", "now-is-clock-now",
                                                                    "release-and-hook-only-if-id-present", "ids-fresh", "hook-under-total-weight-lock"))
    import c09
    share(ctx, c09, {"R09.6": "R03.3"}, only=("retain-iff-now-le-expiry", "now-is-clock-now"))
    stale_entries(ctx, T)
    no_overwrite(ctx, "R03.5")
    # ---- R03.8 a read waits for the entry: DashMap's try_* lookups report `Locked` whenever another thread holds the shard
    # (an insert, update, delete or sweep of an *unrelated* key in the same shard) and every caller here treats that as
    # absent - an accepted, live key would read as gone under traffic on other keys
    for m in ("try_get", "try_get_mut"):
        for f_, bb_, t_ in S.ops.get(m, []):
            ctx.bad("R03.8", "%s|non-blocking-store-lookup" % f_.name,
                    "store lookups block on the shard lock (get / get_mut): DashMap::%s answers Locked while any writer holds the shard, which reads as 'absent'" % m, f_.where(bb_))
    # ---- R03.7 the space test of a put sees the space that is really free: when the worker retires a dead incarnation of
    # the put's key (expired, not yet swept), it does so *before* admission runs - a dead entry still charged during
    # admission is counted as memory pressure and makes a put that fits evict live, unrelated keys
    retire_before_admission(ctx, "R03.7")
    # ---- R03.9 (= C08 R08.1) "every read returns its latest acknowledged value": an upsert acknowledged as accepted has
    # written the request's value into the entry - field by field, on every path of the entry's update (an early return
    # taken for one combination of request fields leaves the old value readable behind an `Accepted`)
    for o in ctx.own_of("c08"):
        if o["rule"] == "R08.1":
            ctx._add(o["status"], "R03.9", o["key"].split("|", 1)[1], o["desc"], o["where"], o["detail"])
    # ---- R03.6 the hooks remove by the key recorded with the released id ------------------------------------
    n_hooks = 0
    for name, f in F.fns.items():
        if f.kind != "Closure":
            continue
        rem = [(b, t) for b, t in f.calls() if t.get("rpath") in removers]
        if rem and f.argc == 2:
            n_hooks += 1
            for b, t in rem:
                k = f.op_origin(t["args"][1])
                ctx.check(k == ("param", 2), "R03.6", "%s|hook-removes-given-key" % name, "a removal hook removes exactly the key it is handed (the one recorded with the released id)", f.where(b), fmt(k))
    ctx.floor("R03.6", "store-removal hooks", n_hooks, 1)
    # eviction in the put path must not touch the key being inserted: the victim id comes from the sample of *charged* ids,
    # and the incoming id is charged only after eviction (R05.1: add after create_space)


def share(ctx, mod, rulemap, only):
    for o in ctx.own_of(mod.__name__):
        if o["rule"] in rulemap and any(x in o["key"] for x in only):
            ctx._add(o["status"], rulemap[o["rule"]], o["key"].split("|", 1)[1], o["desc"], o["where"], o["detail"])


def linear(e):
    """e as (base expr, constant offset) for e = base (+|-) const"""
    if e[0] == "binop" and e[1] in ("Add", "Sub") and e[3][0] == "const" and isinstance(e[3][1], int):
        b, c = linear(e[2])
        return b, c + (e[3][1] if e[1] == "Add" else -e[3][1])
    if e[0] == "binop" and e[1] == "Add" and e[2][0] == "const" and isinstance(e[2][1], int):
        b, c = linear(e[3])
        return b, c + e[2][1]
    return e, 0


def pressure(ctx, M):
    """a victim's weight is released by the admission path only on an edge that implies available < incoming weight"""
    from core import bool_branches, strip_site
    F = ctx.facts
    dec_fns = {s["fn"].name for s in M.dec_sites}
    n = 0
    import inline
    for name, f0 in F.fns.items():
        if f0.kind == "Closure" or not f0.rec.get("ret", "").endswith("CommandStatus"):
            continue
        # the release may sit in a private helper of the function that owns the guard: look at the function with such
        # helpers spliced in
        f = inline.expand(F, f0, lambda n_: M.keep_in_expansion(n_) or n_ in dec_fns)
        dels = [(b, t) for b, t in f.calls() if t.get("rpath") in dec_fns]
        if not dels:
            continue
        # the incoming weight: a `.weight` field of a parameter
        for db, dt in dels:
            n += 1
            ok = False
            why = "no dominating comparison of the available space with the incoming weight"
            for b, expr, tt, ft in bool_branches(f):
                if expr[0] != "binop" or expr[1] not in ("Lt", "Le"):
                    continue
                for (lhs, rhs, edge, strict) in ((expr[2], expr[3], tt, expr[1] == "Lt"),):
                    lb, lc = linear(lhs)
                    rb, rc = linear(rhs)
                    is_w = rb[0] == "field" and rb[2] == "weight" and rb[1][0] == "param"
                    if not is_w:
                        continue
                    # the left side must be derived from the space query for that weight (exactly, through a
                    # parameter bound to it, or as a running estimate that mentions it): for C03 any such value is
                    # evidence of pressure; whether the estimate is exact is C01/C06's concern
                    members = lb[1] if lb[0] == "phi" else (lb,)
                    derived = M.avail_ok(f, lb, rb) is not None or any(M.avail_ok(f, m, rb) is not None for m in members) or \
                        any(M.avail_ok(f, x, rb) is not None for m in members for x in __import__("core").subexprs(m) if x[0] in ("field", "param"))
                    if not derived:
                        continue
                    # lb + lc < rb + rc (or <=) must imply lb < rb
                    implies = (lc >= rc) if strict else (lc > rc)
                    if implies and f.edge_dominates((b, edge), db):
                        ok = True
                    elif f.edge_dominates((b, edge), db):
                        why = "the guard %s does not imply available < weight" % __import__("core").fmt(expr)
            ctx.check(ok, "R03.2", "%s|evict-only-under-pressure" % name,
                      "on the admission path a resident key is released only on an edge implying available space < incoming weight (no eviction without memory pressure)", f.where(db), why if not ok else "")
        # and the eviction function itself is entered only when the key does not fit
        for g, bb, t in [(g, bb, t) for n2, g in F.fns.items() for bb, t in g.calls() if t.get("rpath") == name]:
            w = None
            for a in t["args"]:
                o = g.op_origin(a)
                if o[0] == "param" and "KeyDescription" in g.locals[o[1]]["ty"]:
                    w = ("field", o, "weight")
            fits = [(b, ft) for b, expr, tt, ft in bool_branches(g) if w is not None and M.is_query_field(expr, w, "1")]
            ok_dom = bool(fits) and all(g.edge_dominates(e, bb) for e in fits)
            if not ok_dom and w is not None:
                # path-sensitive form (the query's answer routed through a local enum / helper)
                from sym import ipaths
                status = {n_ for n_, h_ in F.fns.items() if h_.rec.get("ret", "").endswith("CommandStatus")}
                n_through, ok_dom = 0, True
                for p_ in ipaths(F, g, stop=lambda n_: n_ in M.inc_defs or n_ in M.qnames or n_ in status, depth=2):
                    ev = [e for e in p_.events if e.fn is g and e.bb == bb]
                    if not ev:
                        continue
                    n_through += 1
                    if not any(a[0] == "bool" and M.is_query_field(a[1], w, "1") and not a[2] and a[4] < ev[0].seq for a in p_.atoms):
                        ok_dom = False
                ok_dom = ok_dom and n_through >= 1
            ctx.check(ok_dom, "R03.2", "%s|eviction-entered-only-when-not-fitting" % g.name,
                      "the eviction loop is entered only after the space query reported that the incoming key does not fit", g.where(bb))
    ctx.floor("R03.2", "victim release sites on the admission path", n, 1)


def stale_entries(ctx, T):
    """a TTL change must remove the (id, old expiry) index entry from the shard of the OLD expiry: a stale entry
    carries the live key's id and would evict it when the old expiry comes due"""
    from core import strip_site
    F = ctx.facts
    n = 0
    for name in sorted(T.move_fns):
        f = F.fn(name)
        n += 1
        seqs = T.root_paths.get(name) or []
        ok = bool(seqs)
        for seq in seqs:
            rem = [o for o in seq if o["kind"] == "remove"]
            ins = [o for o in seq if o["kind"] == "insert"]
            ok = ok and len(rem) == 1 and len(ins) == 1 and rem[0]["shard_arg"] is not None and ins[0]["shard_arg"] is not None and \
                strip_site(rem[0]["shard_arg"]) != strip_site(ins[0]["args"][1])
        ctx.check(ok, "R03.3", "%s|old-index-entry-removed" % name,
                  "changing a TTL removes the id from the shard of its previous expiry on every path (otherwise the stale entry later evicts the live key)", f.where())
    ctx.floor("R03.3", "expiry-index move functions", n, 1)

def no_overwrite(ctx, RULE):
    """hooks remove store entries by key: that hits the right incarnation only if a store insert never overwrites
    an existing entry (C05 R05.3)"""
    import c05
    for o in ctx.own_of("c05"):
        if o["rule"] == "R05.3":
            ctx._add(o["status"], RULE, o["key"].split("|", 1)[1],
                     o["desc"] + " [needed here because the eviction/expiry hooks remove the store entry by key: an overwritten entry would make a stale id remove a newer incarnation]", o["where"], o["detail"])


def retire_before_admission(ctx, RULE):
    from sym import ipaths, focus
    from core import same_value
    from weight import WeightModel
    from storemodel import StoreModel
    import c05
    F = ctx.facts
    M = WeightModel(ctx)
    S = StoreModel(ctx)
    charge_fns = {s_["fn"].name for s_ in M.inc_sites if s_["amount"][0] != "binop" or s_["amount"][1] != "Sub"}
    admit = {n for n, f in F.fns.items() if f.rec.get("ret", "").endswith("command::CommandStatus") and any(t.get("rpath") in charge_fns for b, t in f.calls())}
    status_fns = {n for n, g in F.fns.items() if g.kind != "Closure" and (g.rec.get("ret") or "").endswith("CommandStatus")}
    stop = focus(F, admit | set(S.insert_fns) | set(S.remove_fns))
    hc = {}
    for n in sorted(status_fns - admit):
        ps = ipaths(F, F.fns[n], stop=stop, depth=3)
        if any(p.calls(S.insert_fns) for p in ps) and any(p.calls(admit) for p in ps):
            hc[n] = ps
    outer = [n for n in hc if not any(t.get("rpath") == n for m in hc if m != n for b, t in F.fns[m].calls())]
    for n in outer:
        bad = []
        for p in hc[n]:
            adm = p.calls(admit)
            ins = p.calls(S.insert_fns)
            if not adm or not ins:
                continue
            kp, ip = c05.insert_params(F, F.fns[ins[0].callee])
            key = ins[0].args[kp - 1] if kp else None
            for e in p.calls(S.remove_fns):
                if key is not None and any(same_value(a, key) for a in e.args[1:]) and e.seq > adm[0].seq:
                    bad.append("%s removes the put's old entry after admission ran (%s)" % (e.callee.split("::")[-1], p.show()))
        ctx.check(not bad, RULE, "%s|dead-incarnation-retired-before-admission" % n,
                  "a dead incarnation of the put's key is removed (and its weight released) before the admission decision, so admission never evicts for space that an unreadable entry of the same key still occupies", F.fns[n].where(), "; ".join(sorted(set(bad))[:2]))
    ctx.floor(RULE, "put handlers (admission then insert)", len(outer), 1)
