"""Shared static analyses over the MIR-lite fact base produced by driver/ (cachedlint).

Nothing here executes the cache: every function below is a graph / dataflow computation over the
type-checked program's MIR as dumped by the driver.

A1 origin resolver       Fn.origin(), Fn.place_origin()
A3 CFG reachability      Fn.reach(), Fn.edge_dominates(), Fn.must_pass(), Fn.dominators()
A4 guard liveness        Fn.held_before_term(), Fn.held_at_stmt()
A5 effect summaries      Facts.effects()
A6 who-may-call          Facts.instance graph helpers
"""
import json
import os
import re
import sys
from collections import defaultdict, deque

sys.setrecursionlimit(10000)

# ---------------------------------------------------------------------------------------------
# lock classes, derived from the *protected data type* of a guard / lock (never from names)

LOCK_CLASS_PATTERNS = [
    ("S", re.compile(r"StoredValue<")),           # store shards: HashMap<Key, SharedValue<StoredValue<Value>>>
    ("KW", re.compile(r"WeightedKey<")),          # weight map shards
    ("T", re.compile(r"HashMap<u64, std::time::SystemTime")),  # expiry shards
    ("AF", re.compile(r"TinyLFU")),
    ("PB", re.compile(r"pool::Buffer<")),
    ("AS", re.compile(r"CommandStatus")),
    ("AW", re.compile(r"WakerState")),
    ("WU", re.compile(r"^i64$")),
]


# crate-local newtypes around a plain i64 (`struct UsedWeight(i64)`): the same lock class as the bare integer.  Filled from
# the ADT table when a fact base is loaded.
I64_NEWTYPES = set()


def lock_class(data_ty):
    for name, pat in LOCK_CLASS_PATTERNS:
        if pat.search(data_ty):
            return name
    if data_ty in I64_NEWTYPES:
        return "WU"
    return "?" + data_ty


# ---------------------------------------------------------------------------------------------
# expression trees (A1).  Expr = nested tuples, hashable, comparable.
#   ("param", i) ("upvar", name) ("const", v, ty) ("fnconst", path)
#   ("field", base, name) ("variant", base, Variant)
#   ("call", callee, (args...), site)   site = (fn_name, bb)
#   ("binop", op, a, b) ("unop", op, a) ("cast", a, ty) ("discr", a)
#   ("agg", head, variant, ((name, expr)...))
#   ("phi", (exprs...)) ("var", local) ("unknown", why)

TRANSPARENT_CALLS = (
    "dashmap::mapref::one::Ref::<'a, K, V, S>::value",
    "dashmap::mapref::one::RefMut::<'a, K, V, S>::value",
    "dashmap::mapref::one::RefMut::<'a, K, V, S>::value_mut",
    "dashmap::mapref::multiple::RefMulti::<'a, K, V, S>::value",
    "std::option::Option::<T>::as_ref",
    "std::option::Option::<T>::as_mut",
    "std::option::Option::<T>::as_deref",
    "std::ops::Deref::deref",
    "std::ops::DerefMut::deref_mut",
    "std::convert::AsRef::as_ref",
    "std::borrow::Borrow::borrow",
    "std::convert::Into::into",
    "std::convert::From::from",
    "std::iter::IntoIterator::into_iter",
)


def strip_site(e):
    """expression with call sites erased: equality = same function applied to the same arguments"""
    if not isinstance(e, tuple):
        return e
    if e and e[0] == "call":
        return ("call", e[1], tuple(strip_site(a) for a in e[2]))
    return tuple(strip_site(x) for x in e)


def subexprs(e):
    """all expression nodes (tuples headed by a kind string) inside e, e included"""
    if isinstance(e, tuple):
        if e and isinstance(e[0], str):
            yield e
        for x in e:
            if isinstance(x, tuple):
                yield from subexprs(x)


def mentions(e, pred):
    return any(pred(s) for s in subexprs(e))


def fmt(e, depth=0):
    if not isinstance(e, tuple) or not e:
        return str(e)
    k = e[0]
    if depth > 6:
        return "…"
    if k == "param":
        return "arg%d" % e[1]
    if k == "upvar":
        return "upvar(%s)" % e[1]
    if k == "const":
        return "%s" % (e[1],)
    if k == "fnconst":
        return "fn " + e[1]
    if k == "field":
        return "%s.%s" % (fmt(e[1], depth + 1), e[2])
    if k == "variant":
        return "(%s as %s)" % (fmt(e[1], depth + 1), e[2])
    if k == "call":
        return "%s(%s)" % (short(e[1]), ", ".join(fmt(a, depth + 1) for a in e[2]))
    if k == "binop":
        return "%s(%s, %s)" % (e[1], fmt(e[2], depth + 1), fmt(e[3], depth + 1))
    if k == "unop":
        return "%s(%s)" % (e[1], fmt(e[2], depth + 1))
    if k == "cast":
        return "(%s as %s)" % (fmt(e[1], depth + 1), e[2])
    if k == "discr":
        return "discr(%s)" % fmt(e[1], depth + 1)
    if k == "agg":
        return "%s%s{%s}" % (short(e[1]), ("::" + e[2]) if e[2] else "", ", ".join("%s=%s" % (n, fmt(x, depth + 1)) for n, x in e[3]))
    if k == "phi":
        return "phi(%s)" % ", ".join(fmt(x, depth + 1) for x in e[1])
    if k == "var":
        return "var_%s" % (e[1],)
    return str(e)


def short(path):
    p = re.sub(r"<[^<>]*>", "", path)
    p = re.sub(r"<[^<>]*>", "", p)
    parts = [x for x in p.split("::") if x]
    return "::".join(parts[-2:])


# ---------------------------------------------------------------------------------------------

class Fn:
    def __init__(self, facts, name, rec):
        self.facts = facts
        self.name = name
        self.rec = rec
        self.file = rec["file"]
        self.line = rec["line"]
        self.kind = rec["kind"]
        b = rec["body"]
        self.argc = b["argc"]
        self.locals = b["locals"]
        self.blocks = b["blocks"]
        self.n = len(self.blocks)
        if rec.get("ret") is None and self.locals:
            rec["ret"] = self.locals[0].get("ty")        # closures: the type of the return place
        self._succ = None
        self._defs = None
        self._origin_cache = {}
        self._held = None

    # ---- CFG (non-cleanup) -------------------------------------------------------------------
    def term(self, bb):
        return self.blocks[bb]["term"]

    def succ_edges(self, bb):
        """list of (label, target) over normal (non-unwind) edges"""
        t = self.term(bb)
        k = t["k"]
        if k == "goto":
            return [("", t["target"])]
        if k == "switch":
            return [(v, tb) for v, tb in t["targets"]] + [("otherwise", t["otherwise"])]
        if k in ("call", "drop", "assert"):
            return [("", t["target"])] if "target" in t and t["target"] is not None else []
        return []

    def succs(self, bb):
        return [t for _, t in self.succ_edges(bb)]

    def preds_map(self):
        pm = defaultdict(list)
        for b in range(self.n):
            if self.blocks[b]["cleanup"]:
                continue
            for s in self.succs(b):
                pm[s].append(b)
        return pm

    def reach(self, starts, avoid_blocks=(), avoid_edges=()):
        """blocks reachable from `starts` (inclusive) without entering avoid_blocks / using avoid_edges"""
        avoid_blocks = set(avoid_blocks)
        avoid_edges = set(avoid_edges)
        seen = set()
        work = [s for s in starts if s not in avoid_blocks]
        while work:
            b = work.pop()
            if b in seen:
                continue
            seen.add(b)
            for s in self.succs(b):
                if s in avoid_blocks or (b, s) in avoid_edges or s in seen:
                    continue
                work.append(s)
        return seen

    def reach_after(self, bb, avoid_blocks=(), avoid_edges=()):
        """blocks reachable strictly after leaving bb"""
        return self.reach([s for s in self.succs(bb) if (bb, s) not in set(avoid_edges)], avoid_blocks, avoid_edges)

    def return_blocks(self):
        return [b for b in range(self.n) if not self.blocks[b]["cleanup"] and self.term(b)["k"] == "return"]

    def live_blocks(self):
        return self.reach([0])

    def edge_dominates(self, edge, target):
        """every entry->target path uses `edge` (a (src, dst) pair)"""
        return target not in self.reach([0], avoid_edges=[edge])

    def block_dominates(self, a, b):
        if a == b:
            return True
        return b not in self.reach([0], avoid_blocks=[a])

    def must_pass(self, src_blocks, through, targets=None, avoid_edges=()):
        """every path from src_blocks to targets (default: returns) passes through a block of `through`"""
        targets = set(self.return_blocks()) if targets is None else set(targets)
        r = self.reach(src_blocks, avoid_blocks=through, avoid_edges=avoid_edges)
        return not (r & targets)

    def can_reach(self, a, b):
        """b reachable after executing a's terminator (a != b unless in a loop)"""
        return b in self.reach_after(a)

    # ---- calls -------------------------------------------------------------------------------
    def calls(self, pred=None):
        out = []
        for b in sorted(self.live_blocks()):
            t = self.term(b)
            if t["k"] == "call" and (pred is None or pred(t)):
                out.append((b, t))
        return out

    def calls_to(self, *names, exact=False):
        def p(t):
            c = t.get("rpath") or t["callee"]
            c2 = t["callee"]
            for n in names:
                if exact:
                    if c == n or c2 == n:
                        return True
                elif n in c or n in c2:
                    return True
            return False
        return self.calls(p)

    # ---- def/use -----------------------------------------------------------------------------
    def defs(self):
        """local -> list of ('stmt', bb, idx, rv) / ('call', bb, term) definitions of the whole local"""
        if self._defs is None:
            d = defaultdict(list)
            pd = defaultdict(list)
            for b, blk in enumerate(self.blocks):
                if blk["cleanup"]:
                    continue
                for i, s in enumerate(blk["stmts"]):
                    if s["k"] == "assign":
                        if not s["place"]["p"]:
                            d[s["place"]["l"]].append(("stmt", b, i, s["rv"]))
                        else:
                            pd[s["place"]["l"]].append(("stmt", b, i, s))
                t = blk["term"]
                if t["k"] == "call":
                    if not t["dest"]["p"]:
                        d[t["dest"]["l"]].append(("call", b, t))
                    else:
                        pd[t["dest"]["l"]].append(("call", b, t))
            self._defs = d
            self._pdefs = pd
        return self._defs

    def projected_defs(self, local):
        self.defs()
        return self._pdefs.get(local, [])

    # ---- A1: origin --------------------------------------------------------------------------
    def origin_local(self, l, stack=()):
        key = ("L", l)
        if key in self._origin_cache:
            return self._origin_cache[key]
        if l in stack:
            return ("var", l)
        if 1 <= l <= self.argc:
            ds = self.defs().get(l, [])
            if not ds:
                if self.kind == "Closure" and l == 1:
                    r = ("env",)
                else:
                    r = ("param", l)
                self._origin_cache[key] = r
                return r
        ds = self.defs().get(l, [])
        if not ds:
            r = ("var", l) if not self.projected_defs(l) else ("built", l)
            self._origin_cache[key] = r
            return r
        outs = []
        for d in ds:
            if d[0] == "stmt":
                outs.append(self.origin_rvalue(d[3], stack + (l,), (d[1], d[2])))
            else:
                outs.append(self.origin_call(d[1], d[2], stack + (l,)))
        uniq = []
        for o in outs:
            if o not in uniq:
                uniq.append(o)
        if 1 <= l <= self.argc:
            uniq.insert(0, ("param", l))
        r = uniq[0] if len(uniq) == 1 else ("phi", tuple(sorted(uniq, key=repr)))
        if not any(mentions(r, lambda s: s == ("var", l)) for _ in [0]):
            self._origin_cache[key] = r
        return r

    def origin_call(self, bb, t, stack=()):
        callee = t.get("rpath") or t["callee"]
        generic = t["callee"]
        args = tuple(self.origin_operand(a, stack) for a in t["args"])
        return self.call_expr(bb, t, args, len(stack))

    def call_expr(self, bb, t, args, stack_depth=0, forward=True):
        """value of the call at bb given its (already resolved) argument expressions"""
        callee = t.get("rpath") or t["callee"]
        generic = t["callee"]
        stack = (0,) * stack_depth
        if generic in TRANSPARENT_CALLS and args:
            # pure reborrow / identity conversions: the value is its argument
            if generic in ("std::convert::Into::into", "std::convert::From::from", "std::iter::IntoIterator::into_iter"):
                # only when the conversion resolves to the blanket identity impl
                if "<T as std::convert::From<T>>" in callee or "<T as std::convert::Into<U>>" in callee or "<I as std::iter::IntoIterator>" in callee:
                    return args[0]
            else:
                return args[0]
        if generic == "std::clone::Clone::clone" and args:
            return ("call", "clone", args, (self.name, bb))
        if generic.startswith("std::ops::") and len(args) == 2 and generic.split("::")[-1] in PRIM_OPS and generic.split("::")[-2] == PRIM_OPS[generic.split("::")[-1]]:
            # an arithmetic operator applied through the trait to primitive integers (`a ^ &b`, `&a + b`): the plain binary operation
            m = re.match(r"^<&?(?:'\w+ )?(u8|u16|u32|u64|u128|usize|i8|i16|i32|i64|i128|isize) as std::ops::", callee)
            if m:
                return norm_binop(PRIM_OPS[generic.split("::")[-1]], args[0], args[1])
        if generic.startswith("std::cmp::PartialOrd::") and len(args) == 2 and generic.split("::")[-1] in ("lt", "le", "gt", "ge"):
            # one canonical comparison: a <= b.  a >= b is b <= a; a > b is !(a <= b); a < b is !(b <= a)  (total orders)
            m = generic.split("::")[-1]
            a, b = args
            site = (self.name, bb)
            if m == "le":
                return ("call", "std::cmp::PartialOrd::le", (a, b), site)
            if m == "ge":
                return ("call", "std::cmp::PartialOrd::le", (b, a), site)
            if m == "gt":
                return ("unop", "Not", ("call", "std::cmp::PartialOrd::le", (a, b), site))
            return ("unop", "Not", ("call", "std::cmp::PartialOrd::le", (b, a), site))
        if generic in ("std::ops::Index::index", "std::ops::IndexMut::index_mut") and len(args) == 2:
            return ("index", args[0], args[1])
        # accessor inlining: a local straight-line function without effects is replaced by its body
        if t["res"] == "item" and callee in self.facts.fns and len(stack) < 40:
            g = self.facts.fns[callee]
            if g is not self and (g.is_simple_accessor() or (forward and g.is_place_forwarder())):
                r = g.origin_local(0)
                if not mentions(r, lambda s: s[0] in ("var", "unknown", "built", "env")):
                    return subst_params(r, list(args))
        return ("call", generic if t["res"] in ("unresolved", "virtual") else callee, args, (self.name, bb))

    def origin_operand(self, o, stack=()):
        k = o["k"]
        if k in ("copy", "move"):
            return self.origin_place(o["place"], stack)
        if k == "const":
            if "promoted" in o:
                return self.promoted_origin(o["promoted"])
            if "fn" in o:
                return ("fnconst", o["fn"])
            if "v" in o:
                return ("const", o["v"], o["ty"])
            return ("const", o.get("repr", "?"), o["ty"])
        return ("unknown", "operand")

    def origin_place(self, p, stack=()):
        base = self.origin_local(p["l"], stack)
        for e in p["p"]:
            if e == "deref":
                continue
            if isinstance(e, dict) and "f" in e:
                base = project(base, e["f"])
            elif isinstance(e, dict) and "dc" in e:
                base = downcast(base, e["dc"])
            elif isinstance(e, dict) and "index" in e:
                base = ("index", base, self.origin_local(e["index"], stack))
            elif isinstance(e, dict) and "cindex" in e:
                base = ("index", base, ("const", e["cindex"], "usize"))
            else:
                base = ("unknown", "proj")
        return base

    def origin_rvalue(self, rv, stack=(), at=None):
        k = rv["k"]
        if k == "use":
            return self.origin_operand(rv["op"], stack)
        if k in ("ref", "rawptr"):
            return self.origin_place(rv["place"], stack)
        if k == "cast":
            inner = self.origin_operand(rv["op"], stack)
            ck = rv["ck"]
            if "Unsize" in ck or "PointerCoercion" in ck or "PtrToPtr" in ck or "Transmute" in ck:
                return inner
            return ("cast", inner, rv["ty"])
        if k == "binop":
            a = self.origin_operand(rv["a"], stack)
            b = self.origin_operand(rv["b"], stack)
            return norm_binop(rv["op"], a, b)
        if k == "unop":
            a = self.origin_operand(rv["a"], stack)
            if rv["op"] == "Not" and a[0] == "unop" and a[1] == "Not":
                return a[2]
            if rv["op"] == "Not" and a[0] == "const" and len(a) > 2 and a[2] == "bool":
                return ("const", 0 if a[1] else 1, "bool")
            return ("unop", rv["op"], a)
        if k == "discr":
            return ("discr", self.origin_place(rv["place"], stack))
        if k == "agg":
            names = rv.get("names") or []
            fs = []
            for i, o in enumerate(rv["ops"]):
                n = names[i] if i < len(names) else str(i)
                fs.append((n, self.origin_operand(o, stack)))
            head = rv.get("adt") or rv.get("closure") or rv["agg"]
            return ("agg", head, rv.get("variant", ""), tuple(fs))
        if k == "repeat":
            return ("repeat", self.origin_operand(rv["op"], stack))
        return ("unknown", rv.get("repr", k)[:40])

    def op_origin(self, o):
        return self.origin_operand(o)

    def promoted_origin(self, idx):
        """value of a promoted constant (e.g. `&StatsType::CacheHits`): the origin of _0 in its tiny body"""
        ps = self.rec.get("promoted") or []
        if idx >= len(ps):
            return ("unknown", "promoted")
        key = ("P", idx)
        if key not in self._origin_cache:
            sub = Fn(self.facts, "%s::promoted[%d]" % (self.name, idx), dict(self.rec, body=ps[idx], promoted=[]))
            self._origin_cache[key] = sub.origin_local(0)
        return self._origin_cache[key]

    def is_simple_accessor(self):
        if hasattr(self, "_simple"):
            return self._simple
        self._simple = False
        live = self.live_blocks()
        if len(live) > 5 or self.kind == "Closure":
            return False
        for b in live:
            t = self.term(b)
            if t["k"] == "switch":
                return False
            if t["k"] == "assert" and t.get("msg") not in ("Overflow", "DivisionByZero", "RemainderByZero"):
                return False        # arithmetic checks of a pure computation do not make it less of an accessor
            if t["k"] == "call" and not (t["callee"] in TRANSPARENT_CALLS or t["callee"] == "std::clone::Clone::clone"):
                return False
            if t["k"] == "call" and t.get("rlocal") and t["res"] == "item":
                return False        # a conversion implemented in this crate (`impl From<u64> for Nibble`) is code, not a cast
            for s in self.blocks[b]["stmts"]:
                if s["k"] == "assign" and "deref" in s["place"]["p"]:
                    return False
        self._simple = True
        return True

    def is_place_forwarder(self):
        """a straight-line function returning a reference computed from its arguments (`&self.shards[self.index_of(t)]`):
        for value provenance the call is the place it returns.  (Not used by sym.py, which inlines such helpers
        itself and keeps the events inside them.)"""
        if hasattr(self, "_fwd"):
            return self._fwd
        self._fwd = False
        live = self.live_blocks()
        if len(live) > 8 or self.kind == "Closure" or not (self.rec.get("ret") or "").startswith("&"):
            return False
        for b in live:
            t = self.term(b)
            if t["k"] == "switch":
                return False
            if t["k"] == "assert" and t.get("msg") not in ("Overflow", "DivisionByZero", "RemainderByZero", "BoundsCheck"):
                return False
            if t["k"] == "call":
                c = t["callee"]
                if c in TRANSPARENT_CALLS or c in ("std::clone::Clone::clone", "std::ops::Index::index", "std::ops::IndexMut::index_mut"):
                    continue
                if t["res"] == "item" and (t.get("rpath") in self.facts.fns):
                    continue
                return False
            for s in self.blocks[b]["stmts"]:
                if s["k"] == "assign" and "deref" in s["place"]["p"]:
                    return False
        self._fwd = True
        return True

    def place_origin(self, p):
        return self.origin_place(p)

    # ---- stores through pointers ---------------------------------------------------------------
    def stores(self):
        """assignments whose destination goes through a deref or a field of a non-temporary:
        yields (bb, idx, target_expr, rvalue_expr, stmt)"""
        out = []
        for b in sorted(self.live_blocks()):
            for i, s in enumerate(self.blocks[b]["stmts"]):
                if s["k"] != "assign":
                    continue
                pl = s["place"]
                if "deref" in pl["p"]:
                    out.append((b, i, self.origin_place(pl), self.origin_rvalue(s["rv"]), s))
        return out

    # ---- A4: guard liveness ------------------------------------------------------------------
    def guard_classes(self, l):
        g = self.locals[l].get("guards")
        if not g:
            return ()
        return tuple(sorted({lock_class(x["data"]) for x in g}))

    def _moves_in_operand(self, o):
        if o["k"] == "move":
            return [o["place"]]
        return []

    def _rv_operands(self, rv):
        k = rv["k"]
        if k in ("use", "cast", "repeat"):
            return [rv["op"]]
        if k == "binop":
            return [rv["a"], rv["b"]]
        if k == "unop":
            return [rv["a"]]
        if k == "agg":
            return rv["ops"]
        return []

    def _kill_moved(self, live, place, dest_local=None):
        l = place["l"]
        if l not in live:
            return
        if not place["p"]:
            live.discard(l)
            return
        # partial move out of a guard-holding local: the guards travel with the moved part iff the
        # destination's type holds the same guard set
        if dest_local is not None and set(self.guard_classes(dest_local)) >= set(self.guard_classes(l)):
            live.discard(l)

    def _transfer_stmt(self, live, s):
        if s["k"] == "dead":
            live.discard(s["l"])
            return
        if s["k"] != "assign":
            return
        dest = s["place"]
        dl = dest["l"] if not dest["p"] else None
        for o in self._rv_operands(s["rv"]):
            for p in self._moves_in_operand(o):
                self._kill_moved(live, p, dl)
        if dl is not None and self.guard_classes(dl):
            # a value of guard-holding type is only live if it was built from something live or a call;
            # `_x = move _y` / aggregates of moved guards / Option::None constants
            rv = s["rv"]
            src_has_guard = False
            for o in self._rv_operands(rv):
                if o["k"] in ("move", "copy") and self.guard_classes(o["place"]["l"]):
                    src_has_guard = True
            if src_has_guard:
                live.add(dl)

    def _transfer_term(self, live, t):
        k = t["k"]
        if k == "drop":
            p = t["place"]
            if not p["p"]:
                live.discard(p["l"])
            else:
                # dropping a guard-holding part (e.g. the Some payload): treat as release of the local
                live.discard(p["l"])
        elif k == "call":
            dl = t["dest"]["l"] if not t["dest"]["p"] else None
            for a in t["args"]:
                for p in self._moves_in_operand(a):
                    self._kill_moved(live, p, None if p["p"] == [] else dl)
                    if p["p"]:
                        # moved a projection into a call: guards go with it
                        live.discard(p["l"])
            if dl is not None and self.guard_classes(dl):
                live.add(dl)

    def _liveness(self):
        if self._held is not None:
            return self._held
        IN = {b: set() for b in range(self.n)}
        work = deque([0])
        seen_once = set()
        while work:
            b = work.popleft()
            live = set(IN[b])
            for s in self.blocks[b]["stmts"]:
                self._transfer_stmt(live, s)
            self._transfer_term(live, self.term(b))
            for s in self.succs(b):
                new = IN[s] | live
                if new != IN[s] or s not in seen_once:
                    IN[s] = new
                    seen_once.add(s)
                    work.append(s)
        self._held = IN
        return IN

    def live_guards_before_term(self, bb):
        """guard-holding locals initialised right before bb's terminator executes (arguments moved
        into the call are still counted: the callee runs while they exist)"""
        live = set(self._liveness()[bb])
        for s in self.blocks[bb]["stmts"]:
            self._transfer_stmt(live, s)
        return live

    def held_before_term(self, bb):
        out = set()
        for l in self.live_guards_before_term(bb):
            out |= set(self.guard_classes(l))
        return out

    def live_guards_at_stmt(self, bb, idx):
        live = set(self._liveness()[bb])
        for s in self.blocks[bb]["stmts"][:idx]:
            self._transfer_stmt(live, s)
        return live

    def where(self, bb=None, idx=None):
        line = self.line
        if bb is not None:
            if idx is not None and idx < len(self.blocks[bb]["stmts"]):
                line = self.blocks[bb]["stmts"][idx].get("line", line)
            else:
                t = self.term(bb)
                line = t.get("fn_line") or t.get("line") or line
        return "%s:%s" % (self.file, line)


OVERFLOW_OPS = {"AddWithOverflow": "Add", "SubWithOverflow": "Sub", "MulWithOverflow": "Mul"}


def project(base, name):
    if base == ("env",) and "." in name:
        parts = name.split(".")
        out = ("field", base, parts[0])
        for p in parts[1:]:
            out = ("field", out, p)
        return out
    if base[0] == "binop" and base[1] in OVERFLOW_OPS:
        # checked arithmetic: (a op b).0 is the result, .1 the overflow flag
        if name == "0":
            return norm_binop(OVERFLOW_OPS[base[1]], base[2], base[3])
        return ("overflow", base)
    if base[0] == "agg":
        for n, x in base[3]:
            if n == name:
                return x
    if base[0] == "phi":
        outs = tuple(sorted({project(x, name) for x in base[1]}, key=repr))
        return outs[0] if len(outs) == 1 else ("phi", outs)
    return ("field", base, name)


def downcast(base, variant):
    if base[0] == "agg" and base[2] == variant:
        return base
    if base[0] == "phi":
        alts = [x for x in base[1] if not (x[0] == "agg" and x[2] and x[2] != variant)]
        outs = tuple(sorted({downcast(x, variant) for x in alts}, key=repr))
        if len(outs) == 1:
            return outs[0]
        if outs:
            return ("phi", outs)
    return ("variant", base, variant)


PRIM_OPS = {"add": "Add", "sub": "Sub", "mul": "Mul", "div": "Div", "rem": "Rem", "bitxor": "BitXor", "bitand": "BitAnd", "bitor": "BitOr", "shl": "Shl", "shr": "Shr"}
COMMUTATIVE = {"Add", "Mul", "BitAnd", "BitOr", "BitXor", "Eq", "Ne", "AddWithOverflow", "MulWithOverflow", "AddUnchecked"}
FLIP = {"Lt": "Gt", "Gt": "Lt", "Le": "Ge", "Ge": "Le"}


def norm_binop(op, a, b):
    """canonical comparison direction: only Lt/Le/Eq/Ne survive (Gt(a,b)=Lt(b,a), Ge(a,b)=Le(b,a))"""
    if op in ("Gt", "Ge"):
        op, a, b = FLIP[op], b, a
    # algebraic identities: x + 0, 0 + x, x - 0, x * 1
    if op in ("Add", "AddWithOverflow", "AddUnchecked") and op == "Add":
        if b[0] == "const" and b[1] == 0:
            return a
        if a[0] == "const" and a[1] == 0:
            return b
    if op == "Sub" and b[0] == "const" and b[1] == 0:
        return a
    if op == "Mul":
        if b[0] == "const" and b[1] == 1:
            return a
        if a[0] == "const" and a[1] == 1:
            return b
    if op in COMMUTATIVE and repr(a) > repr(b):
        a, b = b, a
    return ("binop", op, a, b)


# ---------------------------------------------------------------------------------------------

class Facts:
    def __init__(self, path):
        with open(path) as f:
            self.raw = json.load(f)
        self.path = path
        self.fns = {name: Fn(self, name, rec) for name, rec in self.raw["fns"].items()}
        self.consts = self.raw["consts"]
        self.adts = self.raw["adts"]
        self.nodes = self.raw["graph"]["nodes"]
        I64_NEWTYPES.clear()
        for an, ad in self.adts.items():
            if ad["kind"] == "Struct" and len(ad["variants"]) == 1 and [fl["ty"] for fl in ad["variants"][0]["fields"]] == ["i64"]:
                I64_NEWTYPES.add(an)
        self._by_def = defaultdict(list)
        for nd in self.nodes:
            self._by_def[nd["def"]].append(nd["id"])
        self._effects = None
        # A9: `with_x(|x| ..)` helpers are inlined into their callers (closure body included) before any rule looks
        self.inlined = []
        if not os.environ.get("VERIF_NO_INLINE"):
            import inline
            inline.resolve_into(self)
            self.desugared = inline.desugar_combinators(self) if not os.environ.get("VERIF_NO_DESUGAR") else {}
            self.inlined = inline.run(self)
            self.merged = inline.merge_private_helpers(self) if not os.environ.get("VERIF_NO_MERGE_HELPERS") else {}

    # ---- lookup ------------------------------------------------------------------------------
    def fn(self, name):
        return self.fns.get(name)

    def find(self, pattern):
        """functions whose def path matches the regex"""
        rx = re.compile(pattern)
        return [f for n, f in self.fns.items() if rx.search(n)]

    def one(self, pattern):
        fs = self.find(pattern)
        return fs[0] if len(fs) == 1 else None

    def closures_of(self, fn):
        return [f for n, f in self.fns.items() if f.kind == "Closure" and n.startswith(fn.name + "::{closure")]

    def parent_fn(self, fn):
        n = fn.name
        while "::{closure#" in n:
            n = n[: n.rfind("::{closure#")]
            if n in self.fns and self.fns[n].kind != "Closure":
                return self.fns[n]
        return fn

    # ---- instance graph ----------------------------------------------------------------------
    def insts_of(self, def_name):
        return list(self._by_def.get(def_name, []))

    def inst_edges(self, nid):
        """(bb, kind, target) with kind in local/cb/ext/user; target = node id or callee path"""
        nd = self.nodes[nid]
        out = []
        for bb, c in (nd.get("calls") or {}).items():
            k = c["k"]
            if k == "local":
                out.append((int(bb), "local", c["inst"], c))
            elif k == "ext":
                out.append((int(bb), "ext", c.get("rpath") or c["callee"], c))
            else:
                out.append((int(bb), "user", c.get("callee", "<indirect>"), c))
            for cb in c.get("cbs", []):
                out.append((int(bb), "cb", cb, c))
        return out

    def inst_reach(self, starts, stop=lambda nid: False):
        seen = set()
        work = list(starts)
        while work:
            n = work.pop()
            if n in seen:
                continue
            seen.add(n)
            if stop(n):
                continue
            for bb, k, tgt, c in self.inst_edges(n):
                if k in ("local", "cb") and tgt not in seen:
                    work.append(tgt)
        return seen

    def inst_paths_to(self, starts, goal_pred, limit=50):
        """shortest call chains (lists of (node, bb)) from any start to a node/call satisfying goal_pred(nid, bb, kind, tgt, c)"""
        out = []
        prev = {}
        q = deque()
        for s in starts:
            prev[s] = None
            q.append(s)
        while q and len(out) < limit:
            n = q.popleft()
            for bb, k, tgt, c in self.inst_edges(n):
                if goal_pred(n, bb, k, tgt, c):
                    chain = [(n, bb)]
                    x = n
                    while prev[x] is not None:
                        chain.append(prev[x])
                        x = prev[x][0]
                    out.append(list(reversed(chain)))
                if k in ("local", "cb") and tgt not in prev:
                    prev[tgt] = (n, bb)
                    q.append(tgt)
        return out

    def spawn_closures(self):
        """def names of closures handed to std::thread::spawn, with the spawning fn: discovered, not listed"""
        out = {}
        for name, f in self.fns.items():
            for bb, t in f.calls_to("std::thread::spawn"):
                for a in t["args"]:
                    ty = None
                    if a["k"] in ("move", "copy"):
                        ty = f.locals[a["place"]["l"]]["ty"]
                    if ty and "{closure" in ty:
                        # the closure type prints as {closure@file:line:col}; map through the aggregate that built it
                        o = f.op_origin(a)
                        if o[0] == "agg":
                            out[o[1]] = name
        return out

    def def_of(self, nid):
        return self.nodes[nid]["def"]

    # ---- A5: effect summaries over the instance graph -----------------------------------------
    def direct_effects(self, nid):
        """effects of the calls made directly by instance nid: list of (bb, kind, what, call_record)"""
        out = []
        for bb, k, tgt, c in self.inst_edges(nid):
            if k in ("ext", "user"):
                eff = classify_external(c)
                for e in eff:
                    out.append((bb, e[0], e[1], c))
        return out

    def effects(self):
        """nid -> {'acquire': set(lock classes), 'block': set(kinds), 'user': bool} transitively"""
        if self._effects is not None:
            return self._effects
        eff = {nd["id"]: {"acquire": set(), "block": set(), "nonblock": set(), "user": set()} for nd in self.nodes}
        for nd in self.nodes:
            for bb, kind, what, c in self.direct_effects(nd["id"]):
                eff[nd["id"]][kind].add(what)
        changed = True
        while changed:
            changed = False
            for nd in self.nodes:
                me = eff[nd["id"]]
                for bb, k, tgt, c in self.inst_edges(nd["id"]):
                    if k in ("local", "cb"):
                        other = eff[tgt]
                        for key in ("acquire", "block", "nonblock", "user"):
                            if not other[key] <= me[key]:
                                me[key] |= other[key]
                                changed = True
        self._effects = eff
        return eff


# external-call models (DESIGN §3.7): what a call into a dependency may do
BLOCKING = {
    "crossbeam_channel::Sender::<T>::send": "chan_send",
    "crossbeam_channel::Receiver::<T>::recv": "chan_recv",
    "crossbeam_channel::Sender::<T>::send_timeout": "chan_send",
    "crossbeam_channel::Sender::<T>::send_deadline": "chan_send",
    "crossbeam_channel::Receiver::<T>::recv_timeout": "chan_recv",
    "crossbeam_channel::Receiver::<T>::recv_deadline": "chan_recv",
    "crossbeam_channel::Receiver::<T>::iter": "chan_recv",
    "crossbeam_channel::internal::select": "chan_select",
    "crossbeam_channel::internal::select_timeout": "chan_select",
    "crossbeam_channel::internal::select_deadline": "chan_select",
    "std::thread::sleep": "sleep",
    "std::thread::JoinHandle::<T>::join": "join",
    "std::thread::park": "park",
}
NONBLOCKING_CHAN = {
    "crossbeam_channel::Sender::<T>::try_send": "try_send",
    "crossbeam_channel::Receiver::<T>::try_recv": "try_recv",
    "crossbeam_channel::internal::try_select": "try_select",
    "crossbeam_channel::SelectedOperation::<'a>::send": "selected_send",
    "crossbeam_channel::SelectedOperation::<'a>::recv": "selected_recv",
}
LOCK_METHODS = re.compile(r"^parking_lot::lock_api::(RwLock::<R, T>::(read|write|upgradable_read|try_read|try_write)|Mutex::<R, T>::(lock|try_lock))$")
DASHMAP_METHOD = re.compile(r"^dashmap::DashMap::<K, V, S>::([a-z_]+)$|^dashmap::DashMap::<K, V>::([a-z_]+)$")
DASHMAP_NOLOCK = {"new", "with_capacity", "with_capacity_and_shard_amount", "with_hasher", "with_shard_amount", "hasher", "shards", "determine_map", "hash_usize", "determine_shard", "with_capacity_and_hasher", "with_capacity_and_hasher_and_shard_amount", "into_read_only"}


def callee_path(c):
    return c.get("rpath") or c.get("callee") or ""


def classify_external(c):
    """effects of one external/user call record: list of (kind, what)"""
    p = callee_path(c)
    g = c.get("callee", "")
    out = []
    for cand in (p, g):
        if cand in BLOCKING:
            out.append(("block", BLOCKING[cand]))
            break
    if "<crossbeam_channel::Iter<" in p and p.endswith("::next") or "<crossbeam_channel::IntoIter<" in p and p.endswith("::next"):
        out.append(("block", "chan_recv"))
    for cand in (p, g):
        if cand in NONBLOCKING_CHAN:
            out.append(("nonblock", NONBLOCKING_CHAN[cand]))
            break
    m = LOCK_METHODS.match(p)
    if m:
        gargs = c.get("gargs", [])
        data = gargs[-1] if gargs else "?"
        meth = m.group(2) or m.group(3)
        out.append(("acquire", lock_class(data)))
    m = DASHMAP_METHOD.match(p)
    if m:
        meth = m.group(1) or m.group(2)
        if meth not in DASHMAP_NOLOCK:
            gargs = c.get("gargs", [])
            v = gargs[1] if len(gargs) > 1 else "?"
            cls = lock_class(v + "<") if lock_class(v + "<") in ("S", "KW") else lock_class(v)
            out.append(("acquire", cls))
    if "dashmap::iter::Iter<" in p and p.endswith("::next"):
        gargs = c.get("gargs", [])
        data = " ".join(gargs)
        out.append(("acquire", lock_class(data)))
    if c.get("k") == "user":
        out.append(("user", g or "<indirect>"))
    return out


def dashmap_call(t_or_c):
    """(method, class) if the call record is a DashMap method on one of the crate's maps"""
    p = t_or_c.get("rpath") or t_or_c.get("callee") or ""
    m = DASHMAP_METHOD.match(p)
    if not m:
        return None
    meth = m.group(1) or m.group(2)
    gargs = t_or_c.get("gargs", [])
    v = gargs[1] if len(gargs) > 1 else "?"
    cls = lock_class(v + "<")
    return meth, cls


def lock_call(t_or_c):
    p = t_or_c.get("rpath") or t_or_c.get("callee") or ""
    m = LOCK_METHODS.match(p)
    if not m:
        return None
    meth = m.group(2) or m.group(3)
    gargs = t_or_c.get("gargs", [])
    return meth, lock_class(gargs[-1] if gargs else "?")


# ---------------------------------------------------------------------------------------------
# branch helpers

def bool_branch(fn, bb):
    """for a block ending in a switch on a bool: (discr_expr, true_target, false_target) else None"""
    t = fn.term(bb)
    if t["k"] != "switch" or t.get("dty") != "bool":
        return None
    tg = dict((v, b) for v, b in t["targets"])
    if 0 in tg and len(tg) == 1:
        e, tt, ft = fn.op_origin(t["discr"]), t["otherwise"], tg[0]
    elif 1 in tg and len(tg) == 1:
        e, tt, ft = fn.op_origin(t["discr"]), tg[1], t["otherwise"]
    else:
        return None
    while isinstance(e, tuple) and e and e[0] == "unop" and e[1] == "Not":
        e, tt, ft = e[2], ft, tt          # branching on !x is branching on x with the edges swapped
    return e, tt, ft


def bool_branches(fn):
    out = []
    for b in sorted(fn.live_blocks()):
        r = bool_branch(fn, b)
        if r:
            out.append((b,) + r)
    return out


TRY_MAP = {"std::option::Option": {"Continue": "Some", "Break": "None"}, "std::result::Result": {"Continue": "Ok", "Break": "Err"}}


def try_branch_subject(e):
    """`x?` lowers to match Try::branch(x) { Continue(v) => v, Break(r) => return from_residual(r) }:
    (x, variant map) when e is such a call on Option/Result"""
    if isinstance(e, tuple) and e and e[0] == "call" and e[1].endswith("::branch") and "std::ops::Try" in e[1] and e[2]:
        for ty, mp in TRY_MAP.items():
            if ty in e[1]:
                return e[2][0], mp
    return None


def enum_branch(fn, bb):
    """for a block ending in a switch on discr(place): (scrutinee_expr, {variant_name: target}, otherwise_target, variants)"""
    t = fn.term(bb)
    if t["k"] != "switch":
        return None
    d = t["discr"]
    if d["k"] not in ("copy", "move") or d["place"]["p"]:
        return None
    l = d["place"]["l"]
    ds = fn.defs().get(l, [])
    if len(ds) != 1 or ds[0][0] != "stmt" or ds[0][3]["k"] != "discr":
        return None
    rv = ds[0][3]
    vmap = {v: n for v, n in rv["variants"]}
    if not vmap:
        return None
    tg = {}
    for v, b in t["targets"]:
        tg[vmap.get(v, str(v))] = b
    rest = [n for v, n in rv["variants"] if n not in tg]
    scrut = fn.place_origin(rv["place"])
    tb = try_branch_subject(scrut)
    if tb:
        scrut, mp = tb
        tg = {mp.get(n, n): b for n, b in tg.items()}
        rest = [mp.get(n, n) for n in rest]
    return scrut, tg, t["otherwise"], rest


def variant_edges(fn, bb):
    """[(variant_name, target)] including the variants that fall to `otherwise`"""
    r = enum_branch(fn, bb)
    if not r:
        return None
    scrut, tg, other, rest = r
    out = [(n, b) for n, b in tg.items()]
    if fn.term(other)["k"] != "unreachable" or rest:
        for n in rest:
            out.append((n, other))
    return scrut, out


def variant_edges_of(fn, expr):
    """[(variant_name, (switch block, target))] over every switch of fn whose scrutinee is `expr` (wherever the switch
    sits: right after the call that produced the value, or later)"""
    out = []
    for b in sorted(fn.live_blocks()):
        if fn.term(b)["k"] != "switch":
            continue
        ve = variant_edges(fn, b)
        if ve and strip_site(ve[0]) == strip_site(expr):
            out += [(n, (b, tgt)) for n, tgt in ve[1]]
    return out


def const_of(e):
    if isinstance(e, tuple) and e and e[0] == "const":
        return e[1]
    return None


def is_call_to(e, *names):
    return isinstance(e, tuple) and e and e[0] == "call" and any(n in e[1] for n in names)


def root_calls(e):
    """call expressions an expression is derived from through field/variant/deref projections only"""
    out = []
    def go(x):
        if not isinstance(x, tuple) or not x:
            return
        if x[0] in ("field", "variant"):
            go(x[1])
        elif x[0] == "index":
            go(x[1])
        elif x[0] == "phi":
            for y in x[1]:
                go(y)
        elif x[0] == "call":
            out.append(x)
    go(e)
    return out


def field_path(e):
    """('field', ('field', base, a), b) -> (base, [a, b]) ; variants are skipped"""
    names = []
    while isinstance(e, tuple) and e and e[0] in ("field", "variant"):
        if e[0] == "field":
            names.append(e[2])
        e = e[1]
    return e, list(reversed(names))


# ---------------------------------------------------------------------------------------------
# A2: path enumeration (back edges cut: a loop head may be entered twice, every other block once)

def back_edge_heads(fn):
    heads = set()
    color = {}
    def dfs(u):
        color[u] = 1
        for v in fn.succs(u):
            if color.get(v) == 1:
                heads.add(v)
            elif v not in color:
                dfs(v)
        color[u] = 2
    dfs(0)
    return heads


def enum_paths(fn, start=0, ends=None, limit=20000, avoid=(), second_iteration=False):
    """all start->end block sequences of the non-cleanup CFG (ends default: return blocks).  A loop head is entered at
    most twice; with second_iteration the blocks of a cycle may be passed twice as well, so that a path can run the loop
    body once and then leave through the loop's own exit test (which need not sit in the head block)"""
    ends = set(fn.return_blocks()) if ends is None else set(ends)
    heads = back_edge_heads(fn)
    if second_iteration and heads:
        cyc = getattr(fn, "_cycle_blocks", None)
        if cyc is None:
            cyc = {b for b in fn.live_blocks() if b in fn.reach_after(b)}
            fn._cycle_blocks = cyc
        heads_cap = heads
        heads = heads | cyc
    avoid = set(avoid)
    out = []
    path = []
    count = defaultdict(int)

    def go(b):
        if len(out) >= limit:
            return
        if b in avoid:
            return
        cap = 2 if b in heads else 1
        if count[b] >= cap:
            return
        count[b] += 1
        path.append(b)
        if b in ends and len(path) > 0 and (b != start or len(path) > 1 or not fn.succs(b)):
            out.append(list(path))
        else:
            for s in fn.succs(b):
                go(s)
        path.pop()
        count[b] -= 1

    go(start)
    return [p for p in out if path_feasible(fn, p)]


def path_feasible(fn, path):
    """prune paths that branch on the very same value in contradictory ways (drop-elaboration re-tests the
    discriminant of an Option it already matched on; `if x {..} .. if x {..}`): only when no block repeats"""
    if len(set(path)) != len(path):
        return True
    seen_enum = {}
    seen_bool = {}
    for a in path_atoms(fn, path):
        key = repr(a[1])
        if a[0] == "enum":
            names = set(a[2])
            if key in seen_enum:
                prev = seen_enum[key]
                pos_prev = {n for n in prev if not n.startswith("!")}
                pos_now = {n for n in names if not n.startswith("!")}
                neg_prev = {n[1:] for n in prev if n.startswith("!")}
                neg_now = {n[1:] for n in names if n.startswith("!")}
                if pos_prev and pos_now and not (pos_prev & pos_now):
                    return False
                if (pos_prev and pos_prev <= neg_now) or (pos_now and pos_now <= neg_prev):
                    return False
                if pos_prev and pos_now:
                    names = pos_prev & pos_now
            seen_enum[key] = names
        elif a[0] == "bool":
            if a[1][0] in ("phi", "var", "const"):
                continue          # drop flags and loop variables change between tests
            if key in seen_bool and seen_bool[key] != a[2]:
                return False
            seen_bool[key] = a[2]
    return True


def is_log_block_term(t):
    m = t.get("mac", "")
    return "log::" in m


def path_atoms(fn, path):
    """branch facts along a path: [('bool', expr, truth, bb) | ('enum', scrutinee, variant, bb)], log-macro branches erased"""
    atoms = []
    for b, nxt in zip(path, path[1:]):
        t = fn.term(b)
        if t["k"] != "switch" or is_log_block_term(t):
            continue
        br = bool_branch(fn, b)
        if br:
            expr, tt, ft = br
            if tt != ft:
                truth = nxt == tt
                ev = eq_variant(expr)
                if ev is not None:
                    scrut, vname, positive = ev
                    if truth == positive:
                        atoms.append(("enum", scrut, (vname,), b))
                    else:
                        atoms.append(("enum", scrut, ("!" + vname,), b))
                else:
                    atoms.append(("bool", expr, truth, b))
            continue
        ve = variant_edges(fn, b)
        if ve:
            scrut, edges = ve
            names = sorted({n for n, tgt in edges if tgt == nxt})
            atoms.append(("enum", scrut, tuple(names), b))
    return atoms


def path_calls(fn, path, include_log=False):
    out = []
    for b in path:
        t = fn.term(b)
        if t["k"] == "call" and (include_log or not is_log_block_term(t)):
            out.append((b, t))
    return out


def path_return(fn, path, atoms=None):
    """abstract return value of a path: ('agg', adt, variant, fields) / ('variant-of', expr, names) / expr"""
    atoms = path_atoms(fn, path) if atoms is None else atoms
    last = None
    for b in path:
        for i, s in enumerate(fn.blocks[b]["stmts"]):
            if s["k"] == "assign" and s["place"]["l"] == 0 and not s["place"]["p"]:
                last = ("stmt", b, i, s["rv"])
        t = fn.term(b)
        if t["k"] == "call" and t["dest"]["l"] == 0 and not t["dest"]["p"]:
            last = ("call", b, t)
    if last is None:
        return ("unit",)
    if last[0] == "call":
        c = fn.origin_call(last[1], last[2])
        if c[0] == "call" and "FromResidual" in c[1] and c[1].endswith("::from_residual"):
            # early return of `?`: None for Option, Err(..) for Result
            if "std::option::Option" in c[1]:
                return ("agg", "std::option::Option", "None", ())
            if "std::result::Result" in c[1]:
                return ("agg", "std::result::Result", "Err", (("0", c[2][0] if c[2] else ("unknown", "residual")),))
        return c
    e = fn.origin_rvalue(last[3])
    if e[0] == "agg":
        return e
    # a forwarded value: refine by the enum atoms on this path
    cands = e[1] if e[0] == "phi" else (e,)
    for a in atoms:
        if a[0] == "enum":
            for c in cands:
                if strip_site(a[1]) == strip_site(c):
                    return ("variant-of", c, a[2])
    return e


def ret_variant(r):
    """variant name(s) of an abstract return value, or None"""
    if r[0] == "agg":
        return (r[2],)
    if r[0] == "variant-of":
        return r[2]
    return None


def subst_params(e, args):
    """rewrite an expression over a callee's parameters into the caller's terms"""
    if not isinstance(e, tuple) or not e:
        return e
    if e[0] == "param":
        i = e[1] - 1
        return args[i] if 0 <= i < len(args) else ("unknown", "param")
    if e[0] == "field":
        return project(subst_params(e[1], args), e[2])
    if e[0] == "variant":
        return downcast(subst_params(e[1], args), e[2])
    return tuple(subst_params(x, args) if isinstance(x, tuple) else x for x in e)


def unclone(e):
    """value-equality view: clone(x) == x"""
    if not isinstance(e, tuple) or not e:
        return e
    if e[0] == "call" and e[1] == "clone" and len(e[2]) == 1:
        return unclone(e[2][0])
    return tuple(unclone(x) if isinstance(x, tuple) else x for x in e)


def same_value(a, b):
    return strip_site(unclone(a)) == strip_site(unclone(b))


def inline_ctor(F, e):
    """call to a local constructor-like function whose return value is one aggregate -> that aggregate over the args"""
    if isinstance(e, tuple) and e and e[0] == "call" and e[1] in F.fns:
        f = F.fns[e[1]]
        r = f.origin_local(0)
        if r[0] == "agg":
            return subst_params(r, list(e[2]))
    return e


def site_effects(F, fn, bb):
    """effects of the call at block bb of fn: union over fn's instances of the callee's transitive summary"""
    eff = F.effects()
    out = {"acquire": set(), "block": set(), "nonblock": set(), "user": set(), "local": set()}
    for nid in F.insts_of(fn.name):
        for b, k, tgt, c in F.inst_edges(nid):
            if b != bb:
                continue
            if k in ("local", "cb"):
                for key in ("acquire", "block", "nonblock", "user"):
                    out[key] |= eff[tgt][key]
                out["local"].add(F.def_of(tgt))
            else:
                for kind, what in classify_external(c):
                    out[kind].add(what)
    return out


def is_effectful(e):
    return bool(e["acquire"] or e["block"] or e["nonblock"])


# ---------------------------------------------------------------------------------------------
# interprocedural provenance

def closure_captures(F, cdef):
    """(parent Fn, {capture name: expr in the parent}) for a closure def, from the aggregate that builds it"""
    c = F.fn(cdef)
    if c is None or c.kind != "Closure":
        return None
    pname = c.rec.get("parent")
    p = F.fn(pname)
    if p is None:
        return None
    for b in sorted(p.live_blocks()):
        for i, s in enumerate(p.blocks[b]["stmts"]):
            if s["k"] == "assign" and s["rv"]["k"] == "agg" and s["rv"].get("closure") == cdef:
                e = p.origin_rvalue(s["rv"])
                caps = dict(e[3])
                return p, caps
    return None


IDENTITY_CALLS = ("clone_box", "clone", "std::sync::Arc::<T>::new", "std::boxed::Box::<T>::new", "std::sync::Arc::<T, A>::clone")


def peel_identity(e):
    while isinstance(e, tuple) and e and e[0] == "call" and e[2] and (e[1] in IDENTITY_CALLS or e[1].endswith("::clone_box") or e[1].endswith("Clone>::clone") or e[1] in ("std::sync::Arc::<T>::new", "std::boxed::Box::<T>::new")):
        e = e[2][0]
    return e


WRAPPERS = ("&mut ", "&", "std::sync::Arc<", "std::boxed::Box<", "std::rc::Rc<", "std::pin::Pin<")


def adt_of_type(F, ty):
    """local ADT named by a type string, looking through references and owning pointers"""
    if ty is None:
        return None
    t = ty.strip()
    changed = True
    while changed:
        changed = False
        for w in WRAPPERS:
            if t.startswith(w):
                t = t[len(w):].strip()
                changed = True
        if t.startswith("'"):
            t = t.split(" ", 1)[1] if " " in t else t
            changed = True
    head = t.split("<")[0].strip()
    return head if head in F.adts else None


def type_of(F, fn, e):
    if not isinstance(e, tuple) or not e:
        return None
    if e[0] == "param":
        return fn.locals[e[1]]["ty"] if e[1] < len(fn.locals) else None
    if e[0] == "field":
        adt = adt_of_type(F, type_of(F, fn, e[1]))
        if adt:
            for v in F.adts[adt]["variants"]:
                for fl in v["fields"]:
                    if fl["name"] == e[2]:
                        return fl["ty"]
    return None


def field_sources(F, adt, name):
    """every value ever stored into field `name` of local ADT `adt`: aggregate constructions and field writes"""
    if not hasattr(F, "_field_sources"):
        F._field_sources = {}
        for n, g in F.fns.items():
            for b in sorted(g.live_blocks()):
                for i, s in enumerate(g.blocks[b]["stmts"]):
                    if s["k"] == "assign" and s["rv"]["k"] == "agg" and s["rv"].get("adt") in F.adts:
                        e = g.origin_rvalue(s["rv"])
                        for fname, x in e[3]:
                            F._field_sources.setdefault((s["rv"]["adt"], fname), []).append((g, x))
            for (b, i, tgt, rv, st) in g.stores():
                if tgt[0] == "field":
                    a = adt_of_type(F, type_of(F, g, tgt[1]))
                    if a:
                        F._field_sources.setdefault((a, tgt[2]), []).append((g, rv))
    return F._field_sources.get((adt, name), [])


def deep_trace(F, fn, e, pred, depth=0, seen=None):
    """True iff every backward provenance of e (through identity calls, Box internals, constructor inlining,
    closure captures, struct-field sources and parameter binding at every call site) reaches an expression
    satisfying pred(fn, expr)"""
    seen = seen if seen is not None else set()
    e = peel_identity(e)
    key = (fn.name, repr(strip_site(e)))
    if key in seen:
        return True          # already being established on this trace
    if depth > 16:
        return False
    seen.add(key)
    if pred(fn, e):
        return True
    if not isinstance(e, tuple) or not e:
        return False
    if e[0] == "phi":
        return all(deep_trace(F, fn, x, pred, depth + 1, seen) for x in e[1])
    if e[0] == "cast":
        return deep_trace(F, fn, e[1], pred, depth + 1, seen)
    if e[0] == "field":
        base = peel_identity(e[1])
        if e[2] == "pointer" and base[0] == "field" and base[2] == "0":
            return deep_trace(F, fn, base[1], pred, depth + 1, seen)      # Box<T> internals
        if base == ("env",):
            cc = closure_captures(F, fn.name)
            if cc and e[2] in cc[1]:
                return deep_trace(F, cc[0], cc[1][e[2]], pred, depth + 1, seen)
            return False
        if base[0] == "field" and peel_identity(base[1]) == ("env",):
            cc = closure_captures(F, fn.name)
            if cc and base[2] in cc[1]:
                return deep_trace(F, cc[0], project(peel_identity(cc[1][base[2]]), e[2]), pred, depth + 1, seen)
            return False
        if base[0] == "call" and base[1] in F.fns:
            inl = inline_ctor(F, base)
            if inl[0] == "agg":
                return deep_trace(F, fn, project(inl, e[2]), pred, depth + 1, seen)
        adt = adt_of_type(F, type_of(F, fn, base))
        if adt:
            srcs = field_sources(F, adt, e[2])
            if not srcs:
                return False
            return all(deep_trace(F, g, x, pred, depth + 1, seen) for g, x in srcs)
        return False
    if e[0] == "param":
        cs = [(g, bb, t) for n, g in F.fns.items() for bb, t in g.calls() if t.get("rpath") == fn.name and t["res"] == "item"]
        if not cs:
            return False
        return all(deep_trace(F, g, g.op_origin(t["args"][e[1] - 1]), pred, depth + 1, seen) for g, bb, t in cs if e[1] - 1 < len(t["args"]))
    if e[0] == "call" and e[1] in F.fns:
        g = F.fns[e[1]]
        r = g.origin_local(0)
        return deep_trace(F, fn, subst_params(r, list(e[2])), pred, depth + 1, seen)
    return False


def deep_trace_expr(F, fn, e, depth, seen):
    """alternatives [(fn, expr)] for where a container value comes from (one step of closure/param/ctor resolution)"""
    e = peel_identity(e)
    if e[0] == "field" and peel_identity(e[1]) == ("env",):
        cc = closure_captures(F, fn.name)
        if cc and e[2] in cc[1]:
            return [(cc[0], cc[1][e[2]])]
        return []
    if e[0] == "param":
        cs = [(g, bb, t) for n, g in F.fns.items() for bb, t in g.calls() if t.get("rpath") == fn.name and t["res"] == "item"]
        return [(g, g.op_origin(t["args"][e[1] - 1])) for g, bb, t in cs if e[1] - 1 < len(t["args"])]
    if e[0] == "call" and e[1] in F.fns:
        inl = inline_ctor(F, e)
        if inl is not e:
            return [(fn, inl)]
        g = F.fns[e[1]]
        return [(fn, subst_params(g.origin_local(0), list(e[2])))]
    if e[0] == "phi":
        return [(fn, x) for x in e[1]]
    if e[0] == "field":
        outs = []
        for g, x in deep_trace_expr(F, fn, e[1], depth + 1, seen):
            outs.append((g, project(peel_identity(x), e[2])))
        return outs
    return []


def any_all(F, alts, name, pred, depth, seen):
    if not alts:
        return False
    return all(deep_trace(F, g, project(peel_identity(x), name), pred, depth + 1, seen) for g, x in alts)


def eq_variant(expr):
    """`x == Enum::V` / `x != Enum::V` (PartialEq on a field-less variant) -> (x, V, positive)"""
    e, neg = expr, False
    if e[0] == "unop" and e[1] == "Not":
        e, neg = e[2], True
    if e[0] == "call" and (e[1].endswith("PartialEq>::eq") or e[1].endswith("PartialEq::eq") or e[1].endswith("PartialEq>::ne") or e[1].endswith("PartialEq::ne")) and len(e[2]) == 2:
        is_ne = e[1].endswith("ne")
        for x, v in ((e[2][0], e[2][1]), (e[2][1], e[2][0])):
            if v[0] == "agg" and v[2] and not v[3] and x[0] != "agg":
                return x, v[2], (not is_ne) != neg
    return None


def le_truth(atom, is_a, is_b):
    """truth of `a <= b` established by a bool atom, whichever way the comparison is written:
    Le(a, b) = t  |  Lt(b, a) = !t ; None when the atom is not about (a, b)"""
    if atom[0] != "bool":
        return None
    e = atom[1]
    if not (isinstance(e, tuple) and e and e[0] == "binop" and e[1] in ("Le", "Lt")):
        return None
    if e[1] == "Le" and is_a(e[2]) and is_b(e[3]):
        return atom[2]
    if e[1] == "Lt" and is_b(e[2]) and is_a(e[3]):
        return not atom[2]
    return None


def lt_truth(atom, is_a, is_b):
    """truth of `a < b`: Lt(a, b) = t | Le(b, a) = !t"""
    r = le_truth(atom, is_b, is_a)
    return None if r is None else (not r)


def reaches_call(F, f, sub, depth, _memo={}):
    """f (or a local function it calls, `depth` levels down) contains a call whose callee mentions `sub`"""
    key = (id(F), f.name, sub, depth)
    if key in _memo:
        return _memo[key]
    _memo[key] = False
    r = bool(f.calls_to(sub))
    if not r and depth > 0:
        for b, t in f.calls():
            g = F.fns.get(t.get("rpath") or "")
            if t["res"] == "item" and g is not None and g is not f and reaches_call(F, g, sub, depth - 1):
                r = True
                break
    _memo[key] = r
    return r




def try_lock_sites(F, classes):
    """(fn, bb, method, class) of non-blocking acquisitions (try_read / try_write / try_lock) of the given lock classes"""
    out = []
    for n, f in F.fns.items():
        for b, t in f.calls():
            lc = lock_call(t)
            if lc and lc[0].startswith("try_") and lc[1] in classes:
                out.append((f, b, lc[0], lc[1]))
    return out


def try_lock_falls_back(f, b, m, c):
    """the failed attempt is not the end of the operation: from the try_* call no return of `f` is reachable without
    either entering the Some arm of a switch over an Option (the attempt succeeded) or a blocking acquisition of the
    same lock class.  A loop that probes and then falls out to the return (the record is skipped) stays reported."""
    ok_blocks = set()
    for bb in f.live_blocks():
        t = f.term(bb)
        if t["k"] == "call":
            lc = lock_call(t)
            if lc and not lc[0].startswith("try_") and lc[1] == c:
                ok_blocks.add(bb)
        elif t["k"] == "switch":
            ve = variant_edges(f, bb)
            if ve and any(is_call_to(r, "try_") for r in root_calls(ve[0])):
                for n, tgt in ve[1]:
                    if n == "Some":
                        ok_blocks.add(tgt)
    if not ok_blocks:
        return False
    reach = f.reach(f.succs(b), avoid_blocks=ok_blocks)
    return not any(f.term(x)["k"] == "return" for x in reach)


def no_try_locks(ctx, RULE, classes, why):
    """an operation that must take effect takes its lock with a blocking call: a try_* acquisition that fails skips the
    operation silently whenever another thread holds the lock"""
    sites = try_lock_sites(ctx.facts, classes)
    tolerated = [x for x in sites if try_lock_falls_back(*x)]
    for f, b, m, c in tolerated:
        ctx.ok(RULE, "%s|non-blocking-lock-with-blocking-fallback|%s" % (f.name, c),
               "`%s` is an opportunistic first attempt: every path from it to the function's return either took the Some arm of its result or goes through a blocking acquisition of the same lock class" % m, f.where(b))
    sites = [x for x in sites if x not in tolerated]
    for f, b, m, c in sites:
        ctx.bad(RULE, "%s|non-blocking-lock|%s" % (f.name, c),
                "locks guarding cache state are taken with blocking calls (read / write / lock): `%s` fails while another thread holds the lock and the guarded operation is then skipped - %s" % (m, why), f.where(b))
    if not sites:
        ctx.ok(RULE, "no-non-blocking-lock|%s" % "+".join(sorted(classes)), "no try_read / try_write / try_lock on the lock classes %s (%s)" % (sorted(classes), why))
