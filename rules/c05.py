"""C05 — weight accounting matches the set of held keys at quiescence.  (DESIGN §4 C05)"""
from core import (enum_paths, path_atoms, path_calls, path_return, ret_variant, same_value, strip_site, dashmap_call,
                  inline_ctor, fmt, root_calls, field_path, variant_edges, subst_params)
from weight import WeightModel, accounting_flow
from storemodel import StoreModel, local_uses

WITNESSES = ['W5InternalsUnreachable']
from sym import ipaths, focus

LEVEL = "other"
EXPLANATION = ("Pairing rules on MIR paths: an admission function charges weight exactly once on every Accepted path "
               "and never on a rejected one; a put handler inserts into the store exactly once iff admission "
               "accepted, under the charged id and key; a store insert (which overwrites) is either dominated by a "
               "same-thread absence check of that key or its returned previous entry is consumed; the delete "
               "handler releases exactly the id it removed; clear resets weight map and total together. These are "
               "necessary conditions of 'total == sum of held keys at quiescence'; the quiescent equality itself "
               "(a history property) is argued by hand from them.")
ASSUMPTIONS = ["single command worker (C11 R11.1) so check-then-insert on the worker is atomic w.r.t. other inserts"]


def run(ctx):
    F = ctx.facts
    M = WeightModel(ctx)
    S = StoreModel(ctx)
    charge_fns = {s["fn"].name for s in M.inc_sites if s["amount"][0] != "binop" or s["amount"][1] != "Sub"}
    admit_fns = []
    for name, f in F.fns.items():
        if f.rec.get("ret", "").endswith("command::CommandStatus") and any(t.get("rpath") in charge_fns for bb, t in f.calls()):
            admit_fns.append(f)
    ctx.floor("R05.1", "admission functions (return a status and charge weight)", len(admit_fns), 1)
    ctx.floor("R05.3", "store insert sites", len(S.ops.get("insert", [])), 1)

    # R05.1a: admission charges once iff Accepted
    status_fns = {n for n, g in F.fns.items() if g.rec.get("ret", "").endswith("command::CommandStatus")}
    for f in admit_fns:
        ctx.touch(f)
        paths = ipaths(F, f, stop=lambda n, me=f.name: n in charge_fns or (n in status_fns and n != me), depth=3)
        ctx.analysed["paths"] += len(paths)
        bad = []
        for p in paths:
            n = len(p.calls(charge_fns))
            v = p.ret_variant()
            if v == ("Accepted",):
                if n != 1:
                    bad.append(("Accepted path charges %d times" % n, p))
            elif v is not None and "Accepted" not in v and not any(x.startswith("!") for x in v):
                if n != 0:
                    bad.append(("rejected path charges weight", p))
            elif v is not None and v == ("!Accepted",):
                if n != 0:
                    bad.append(("rejected path charges weight", p))
            else:
                bad.append(("return status not determined on path", p))
        ctx.check(not bad and paths, "R05.1", "%s|charge-iff-accepted" % f.name,
                  "every Accepted path charges the incoming key's weight exactly once, every other path never (%d symbolic paths)" % len(paths),
                  f.where(), "; ".join("%s %s" % (w, q.show()) for w, q in bad[:3]))
        # the charged description is the function's parameter
        for b, t in f.calls():
            if t.get("rpath") in charge_fns:
                a = f.op_origin(t["args"][1])
                ctx.check(a[0] == "param", "R05.1", "%s|charges-incoming-key" % f.name,
                          "the weight charged is that of the incoming key description", f.where(b), fmt(a))

    # R05.1b: handlers insert once iff admission accepted, under the same id/key
    admit_names = {f.name for f in admit_fns}
    # handlers = the outermost status-returning functions on whose paths (private helpers such as a shared `admit` step
    # inlined) an admission and a store insert both happen
    hstop = focus(F, admit_names | set(S.insert_fns) | set(S.presence_fns) | set(S.filtered_presence_fns))
    hc = {}
    for name in sorted(status_fns - admit_names):
        f = F.fns[name]
        if f.kind == "Closure":
            continue
        ps = ipaths(F, f, stop=hstop, depth=3)
        if any(p.calls(S.insert_fns) for p in ps) and any(p.calls(admit_names) for p in ps):
            hc[name] = ps
    handlers = [F.fns[n] for n in hc if not any(t.get("rpath") == n for m in hc if m != n for b, t in F.fns[m].calls())]
    ctx.floor("R05.1", "put handlers (admit then insert)", len(handlers), 1)
    for f in handlers:
        ctx.touch(f)
        paths = hc[f.name]
        ctx.analysed["paths"] += len(paths)
        bad = []
        for p in paths:
            ins = p.calls(S.insert_fns)
            adm = p.calls(admit_names)
            v = p.ret_variant()
            if v == ("Accepted",):
                if len(ins) != 1 or len(adm) != 1:
                    bad.append(("Accepted path has %d inserts / %d admissions" % (len(ins), len(adm)), p))
                    continue
                kd = adm[0].args[1]
                g = F.fns[ins[0].callee]
                kparam, idparam = insert_params(F, g)
                if kparam is None:
                    bad.append(("cannot map the insert function's key/id parameters", p))
                    continue
                key = ins[0].args[kparam - 1]
                kid = ins[0].args[idparam - 1]
                if not same_value(key, ("field", kd, "key")) or not same_value(kid, ("field", kd, "id")):
                    bad.append(("insert uses key=%s id=%s, admission charged %s" % (fmt(key), fmt(kid), fmt(kd)), p))
                if p.events.index(adm[0]) > p.events.index(ins[0]):
                    bad.append(("insert precedes admission", p))
            elif v is not None and "Accepted" not in v:
                if ins:
                    bad.append(("non-accepted path inserts into the store", p))
            else:
                bad.append(("return status not determined on path", p))
        ctx.check(not bad and paths, "R05.1", "%s|insert-iff-accepted" % f.name,
                  "the handler inserts exactly once under the charged id and key iff admission accepted (%d symbolic paths)" % len(paths),
                  f.where(), "; ".join("%s %s" % (w, q.show()) for w, q in bad[:3]))

    # R05.3: overwriting insert must be handled
    spawn = F.spawn_closures()
    for f, bb, t in S.ops.get("insert", []):
        ctx.touch(f)
        key = f.op_origin(t["args"][1])
        dl = t["dest"]["l"]
        used = local_uses(f, dl)
        if used:
            ctx.ok("R05.3", "%s|overwriting-insert-handled" % f.name, "the previous entry returned by the store insert is inspected", f.where(bb))
            continue
        ok, why = S.absence_guarded_sym(f, lambda e, f=f, bb=bb: e.fn is f and e.bb == bb, lambda e: e.args[1])
        if not ok:
            ok, why = S.absence_guarded(f, bb, key)
        ctx.check(ok, "R05.3", "%s|overwriting-insert-handled" % f.name,
                  "DashMap::insert overwrites: it must be dominated by a same-thread absence check of that key, or the returned previous entry must be consumed (else the old incarnation's weight stays charged forever)",
                  f.where(bb), why)
    # single inserting thread
    ins_threads = set()
    for cdef in spawn:
        for nid in F.insts_of(cdef):
            r = F.inst_reach([nid], stop=lambda n, me=nid: n != me and F.def_of(n) in spawn)
            if any(F.def_of(n) in S.insert_fns for n in r):
                ins_threads.add(cdef)
    pub = []
    for name, f in F.fns.items():
        if f.rec.get("reachable") and f.kind != "Closure":
            for nid in F.insts_of(name):
                r = F.inst_reach([nid], stop=lambda n: F.def_of(n) in spawn)
                if any(F.def_of(n) in S.insert_fns for n in r):
                    pub.append(name)
    ctx.check(len(ins_threads) == 1 and not pub, "R05.3", "single-inserting-thread",
              "store inserts are reachable from exactly one spawned thread and from no caller-thread API (check-then-insert is atomic)",
              detail="threads=%s api=%s" % (sorted(ins_threads), pub[:3]))

    # R05.2: delete handler releases exactly what it removed
    release_fns = set()
    for s in M.dec_sites:
        release_fns.add(s["fn"].name)
    # wrappers forwarding to the release function
    changed = True
    while changed:
        changed = False
        for name, f in F.fns.items():
            if name in release_fns or name in spawn or f.kind == "Closure":
                continue
            cs = [t for b, t in f.calls() if t["res"] == "item" and t.get("rlocal")]
            if cs and all(t.get("rpath") in release_fns for t in cs) and len(f.live_blocks()) <= 4:
                release_fns.add(name)
                changed = True
    del_handlers = []
    for name, f in F.fns.items():
        cs = f.calls()
        # every non-closure function that removes a store entry by key must release that entry's weight
        # (the removal hooks are closures: they run *after* the release, in the other direction)
        if f.kind != "Closure" and any(t.get("rpath") in S.remove_fns for b, t in cs):
            del_handlers.append(f)
    ctx.floor("R05.2", "delete handlers (remove from store, release weight)", len(del_handlers), 1)
    for f in del_handlers:
        ctx.touch(f)
        paths = enum_paths(f)
        ctx.analysed["paths"] += len(paths)
        bad = []
        for p in paths:
            calls = path_calls(f, p)
            rem = [(b, t) for b, t in calls if t.get("rpath") in S.remove_fns]
            rel = [(b, t) for b, t in calls if t.get("rpath") in release_fns]
            atoms = path_atoms(f, p)
            if len(rem) != 1:
                bad.append(("%d store removals on a path" % len(rem), p))
                continue
            removed = f.origin_call(rem[0][0], rem[0][1])
            some = [a for a in atoms if a[0] == "enum" and strip_site(a[1]) == strip_site(removed)]
            if not some:
                if not rel:
                    bad.append(("the result of the store removal is not examined: a removed entry's weight would stay charged", p))
                continue
            if some and some[0][2] == ("Some",):
                if len(rel) != 1:
                    bad.append(("removed an entry but released weight %d times" % len(rel), p))
                    continue
                idarg = f.op_origin(rel[0][1]["args"][1])
                if not (root_calls(idarg) and strip_site(root_calls(idarg)[0]) == strip_site(removed)):
                    bad.append(("released id %s is not read from the removed entry" % fmt(idarg), p))
            else:
                if rel:
                    bad.append(("weight released although nothing was removed", p))
        ctx.check(not bad and paths, "R05.2", "%s|release-iff-removed" % f.name,
                  "the delete handler releases weight exactly once, for the id read from the removed entry, iff an entry was removed (%d paths)" % len(paths),
                  f.where(), "; ".join("%s via blocks %s" % (w, p) for w, p in bad[:3]))
    # the store-side remove returns the id stored in the removed entry
    for f, bb, t in S.ops.get("remove", []):
        if f.kind == "Closure":
            continue
        bad = []
        rows = 0
        for p in ipaths(F, f, stop=lambda n: False, depth=3):
            L = [e for e in p.events if e.fn is f and e.bb == bb]
            if not L:
                continue
            removed = L[0].res
            v = p.variant_of(removed)
            if v == ("Some",):
                rows += 1
                ids = [x for x in _subs(p.ret) if x[0] == "field" and x[2] == "key_id" and root_calls(x) and strip_site(root_calls(x)[0]) == strip_site(removed)]
                if not ids or p.ret_variant() != ("Some",):
                    bad.append("an entry was removed but the value returned (%s) does not carry its key id" % fmt(p.ret)[:120])
            elif v == ("None",):
                if p.ret_variant() != ("None",):
                    bad.append("nothing was removed but the function does not return None")
            else:
                r = p.ret
                ids = [x for x in _subs(r) if x[0] == "field" and x[2] == "key_id" and root_calls(x) and strip_site(root_calls(x)[0]) == strip_site(removed)]
                if ids:
                    rows += 1
                else:
                    bad.append("the removal's outcome is not examined and the removed id is not returned")
        ctx.check(not bad and rows >= 1, "R05.2", "%s|returns-removed-id" % f.name,
                  "the store removal reports the key id of the entry it removed (None when nothing was removed)", f.where(bb), "; ".join(bad[:2]))

    # R05.8 (= C04 R04.1) the soft-delete mark is applied by key: it must be in place before its own Delete command can run,
    # else it can land on a later incarnation of the key that no Delete is queued for - unreadable, never removed, charged
    for o in ctx.own_of("c04"):
        if o["rule"] == "R04.1" and "hide-dominates-queueing" in o["key"]:
            ctx._add(o["status"], "R05.8", o["key"].split("|", 1)[1], o["desc"] + " [a mark that lands after its Delete ran hides a newer incarnation for good, weight charged]", o["where"], o["detail"])
    from core import no_try_locks
    no_try_locks(ctx, "R05.9", {"WU", "KW"}, "a charge or release that is skipped leaves the total different from the sum of the held keys")
    # R05.6 release of an id and by-key removal of its entry are atomic w.r.t. admission (shared with C10 R10.5 / C03 R03.4)
    import c10
    c10.id_guard(ctx, M, "R05.6")

    for s_ in M.sites + M.helper_sites:
        ctx.check(s_["kind"] != "unclassified" and s_.get("exact", True), "R05.7", "%s|total-written-exactly" % s_["fn"].name,
                  "every write of the total weight applies exactly the intended amount (the space the decisions and statistics rely on is the true total)", s_["fn"].where(s_["bb"], s_["idx"]))
    # R05.4 = R01.4
    accounting_flow(ctx, M, "R05.4")

    # R05.5 clear resets both
    for s in M.sites:
        if s["kind"] == "reset":
            f = s["fn"]
            clears = [b for b, t in f.calls() if dashmap_call(t) == ("clear", "KW")]
            ctx.check(bool(clears) and all(f.block_dominates(b, s["bb"]) or f.must_pass([s["bb"]], [b]) for b in clears), "R05.5",
                      "%s|clear-resets-both" % f.name, "resetting the total to 0 is paired with clearing the weight map", f.where(s["bb"], s["idx"]))


def _subs(e):
    from core import subexprs
    return list(subexprs(e))


def insert_params(F, g):
    """(key parameter index, id parameter index) of a store-insert function, from the DashMap::insert it performs (directly
    or through a private helper; the value's constructor inlined)"""
    for p in ipaths(F, g, stop=lambda n: False, depth=2):
        for e in p.events:
            if dashmap_call(e.t) == ("insert", "S"):
                k = e.args[1]
                v = inline_ctor(F, e.args[2])
                if k[0] == "param" and v[0] == "agg":
                    kid = dict(v[3]).get("key_id")
                    if kid is not None and kid[0] == "param":
                        return k[1], kid[1]
    return None, None
