"""Acknowledgement vocabulary shared by C11/C12/C13: the handle ADT, the completion functions (store the flag)
and their forwarding wrappers, the command channel, the send function."""
from core import is_call_to, subexprs, strip_site, root_calls


def handle_adt(F):
    for name, adt in F.adts.items():
        if adt["kind"] != "Struct":
            continue
        fs = adt["variants"][0]["fields"]
        flag = [f for f in fs if "Atomic<bool>" in f["ty"] or "AtomicBool" in f["ty"]]
        status = [f for f in fs if "Mutex<" in f["ty"] and "CommandStatus" in f["ty"]]
        waker = [f for f in fs if "Mutex<" in f["ty"] and "CommandStatus" not in f["ty"]]
        if len(flag) == 1 and len(status) == 1 and len(waker) == 1:
            return name, flag[0]["name"], status[0]["name"], waker[0]["name"]
    return None


class AckModel:
    def __init__(self, ctx):
        F = self.F = ctx.facts
        self.handle = handle_adt(F)
        self.completions = set()
        if self.handle:
            hname, FLAG, STATUS, WAKER = self.handle
            short = hname.split("::")[-1]
            for name, f in F.fns.items():
                for bb, t in f.calls_to("std::sync::atomic::Atomic::<bool>::store"):
                    o = f.op_origin(t["args"][0])
                    if o[0] == "field" and o[2] == FLAG and f.argc >= 1 and short in f.locals[1]["ty"]:
                        self.completions.add(name)
        # forwarding wrappers: straight-line functions whose only local call is a completion
        self.done_fns = set(self.completions)
        changed = True
        while changed:
            changed = False
            for name, f in F.fns.items():
                if name in self.done_fns or f.kind == "Closure":
                    continue
                cs = [t for b, t in f.calls() if t["res"] == "item" and t.get("rlocal")]
                if len(cs) == 1 and cs[0].get("rpath") in self.done_fns and len(f.live_blocks()) <= 3:
                    self.done_fns.add(name)
                    changed = True
        # command channel: bounded::<Pair> where Pair has a CommandType field and an acknowledgement field
        self.pair_adt = None
        for name, adt in F.adts.items():
            if adt["kind"] == "Struct":
                tys = [f["ty"] for f in adt["variants"][0]["fields"]]
                if any("CommandType<" in t for t in tys) and any("CommandAcknowledgement" in t for t in tys):
                    self.pair_adt = name
        self.bounded_sites = []
        self.send_sites = []     # (fn, bb, term, method)
        self.recv_sites = []
        if self.pair_adt:
            for name, f in F.fns.items():
                for bb, t in f.calls():
                    g = " ".join(t.get("gargs", []))
                    c = t["callee"]
                    if self.pair_adt not in g:
                        continue
                    if c == "crossbeam_channel::bounded" or c == "crossbeam_channel::unbounded":
                        self.bounded_sites.append((f, bb, t))
                    elif c.startswith("crossbeam_channel::Sender::<T>::"):
                        self.send_sites.append((f, bb, t, c.split("::")[-1]))
                    elif c.startswith("crossbeam_channel::Receiver::<T>::"):
                        self.recv_sites.append((f, bb, t, c.split("::")[-1]))
                    elif "crossbeam_channel::Iter<" in g and t.get("rpath", "").endswith("::next"):
                        self.recv_sites.append((f, bb, t, "iter_next"))
                    elif c == "std::iter::Iterator::for_each" and t.get("gargs") and "crossbeam_channel::Iter<" in t["gargs"][0]:
                        # receiver.iter().for_each(closure): receives until the channel is disconnected, by construction
                        self.recv_sites.append((f, bb, t, "iter_for_each"))
        self.send_fns = {f.name for f, bb, t, m in self.send_sites}


def worker_root(F, name, spawn):
    """the spawned closure a (nested) closure is written in, else the name itself"""
    cur = name
    for _ in range(6):
        if cur in spawn:
            return cur
        f = F.fn(cur)
        if f is None or f.kind != "Closure":
            return name
        cur = f.rec.get("parent")
    return name


def thread_roots(F, name, spawn, _seen=()):
    """where a function's code runs: the spawned closures (threads) and caller-less functions (entry points) from which
    it is reached; a nested closure runs where the function it is written in runs"""
    if name in spawn:
        return {name}
    if name in _seen:
        return set()
    f = F.fn(name)
    if f is not None and f.kind == "Closure" and f.rec.get("parent"):
        return thread_roots(F, f.rec["parent"], spawn, _seen + (name,))
    callers = {g.name for g in F.fns.values() for b, t in g.calls() if t.get("rpath") == name and t["res"] == "item"}
    callers.discard(name)
    if not callers:
        return {name}
    out = set()
    for c in callers:
        out |= thread_roots(F, c, spawn, _seen + (name,))
    return out
