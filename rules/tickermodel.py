"""Expiry-index vocabulary (C04/C08/C10): the ticker type, its shard function, and every map operation
with the shard expression it is performed under."""
from core import strip_site, root_calls, subexprs, is_call_to, fmt, lock_call


class TickerModel:
    def __init__(self, ctx):
        F = self.F = ctx.facts
        self.adt = None
        for name, adt in F.adts.items():
            if adt["kind"] == "Struct":
                for fl in adt["variants"][0]["fields"]:
                    if "HashMap<u64, std::time::SystemTime" in fl["ty"] and "RwLock<" in fl["ty"]:
                        self.adt, self.SHARDS = name, fl["name"]
        self.shard_fns = set()
        self.ops = []          # dict(fn, bb, kind, shard_arg, key, value, term)
        if not self.adt:
            return
        # a shard given a type of its own (`struct Shard(RwLock<HashMap<..>>)`): the index is the type holding the
        # collection of them
        for _ in range(3):
            sh = self.adt.split("::")[-1]
            up = None
            for name, adt in F.adts.items():
                if adt["kind"] == "Struct" and name != self.adt:
                    for fl in adt["variants"][0]["fields"]:
                        ty = fl["ty"]
                        if self.adt in ty and ("[" + self.adt in ty or "Vec<" + self.adt in ty):
                            up = (name, fl["name"])
            if up is None:
                break
            self.adt, self.SHARDS = up
        short = self.adt.split("::")[-1]
        from sym import ipaths
        for name, f in F.fns.items():
            if not (f.rec.get("ret") == "usize" and f.argc >= 1 and short in f.locals[1]["ty"] and f.kind != "Closure"):
                continue
            r = f.origin_local(0)
            if r[0] == "binop" and r[1] == "Rem":
                self.shard_fns.add(name)
                continue
            # the modulo may sit in a helper (`SecondsSinceEpoch::from(t).modulo(n)`)
            rets = [p_.ret for p_ in ipaths(F, f, stop=lambda n_: False, depth=3)]
            if rets and all(x[0] == "binop" and x[1] == "Rem" for x in rets):
                self.shard_fns.add(name)
        # Operations are read off path-sensitive paths (sym.py) of the ticker's *entry points*: its functions called from
        # outside the type, and the thread closures it spawns.  Private helpers, closures and generic
        # `with_locked_shard(t, |shard| ..)` wrappers are inlined, so an operation is always seen with the shard
        # expression in the entry point's own terms, and `update = delete(old); put(new)` is seen as remove + insert.
        spawn = F.spawn_closures()

        module = self.adt.rsplit("::", 1)[0] + "::"

        def of_ticker(g):
            # a function of the ticker: defined in the ticker's module and taking the ticker first.  A helper elsewhere
            # that merely receives the ticker (to call its entry points) is one of its users.
            return g.kind != "Closure" and g.argc >= 1 and short in g.locals[1]["ty"] and g.name.startswith(module)
        tick_fns = [g for n_, g in F.fns.items() if of_ticker(g)]
        roots = []
        for g in tick_fns:
            callers = [h for h in F.fns.values() for b_, t_ in h.calls() if t_.get("rpath") == g.name and t_["res"] == "item"]
            outside = [h for h in callers if not (of_ticker(h) or (h.kind == "Closure" and any(h.name.startswith(x.name + "::") for x in tick_fns)))]
            if outside or not callers:
                roots.append(g)
        for cdef, parent in spawn.items():
            pf = F.fn(parent)
            if pf is not None and of_ticker(pf) and F.fn(cdef) is not None:
                roots.append(F.fn(cdef))
        self.roots = roots
        self.root_paths = {}
        for root in roots:
            paths = ipaths(F, root, stop=lambda n_: n_ in self.shard_fns, depth=3)
            seqs = []
            seen = set()
            for p_ in paths:
                seq = []
                for e in p_.events:
                    c = e.generic
                    if not c.startswith("hashbrown::HashMap::<K, V, S, A>::") or "std::time::SystemTime" not in " ".join((e.t.get("gargs") or [])[:2]):
                        continue
                    kind = c.split("::")[-1]
                    recv = e.args[0]
                    locks = [x for x in root_calls(recv) if lock_call({"rpath": x[1], "gargs": ["", "hashbrown::HashMap<u64, std::time::SystemTime"]})]
                    shard_arg = None
                    mapping = None
                    whole = False
                    if locks and locks[0][2]:
                        tgt = locks[0][2][0]
                        while tgt[0] == "field" and tgt[1][0] in ("index", "field") and tgt[1] != ("param", 1):
                            tgt = tgt[1]                      # the lock inside a shard newtype: shards[i].0
                        if tgt[0] == "index":
                            idx = tgt[2]
                            if idx[0] == "call" and idx[1] in self.shard_fns:
                                shard_arg = idx[2][1]
                                mapping = ("fn", idx[1])
                            elif idx[0] == "binop" and idx[1] == "Rem":
                                # the mapping written out (or merged into a `shard_for(t) -> &Shard` helper): the time it
                                # is computed from, and the computation with that time abstracted
                                ds = [x for x in subexprs(idx) if x[0] == "call" and x[1].endswith("SystemTime::duration_since") and x[2]]
                                if len({repr(strip_site(x[2][0])) for x in ds}) == 1:
                                    shard_arg = ds[0][2][0]
                                    hole = strip_site(shard_arg)

                                    def abstract(x):
                                        if x == hole:
                                            return ("hole",)
                                        if isinstance(x, tuple) and len(x) == 3 and x[0] == "field" and x[2] == self.SHARDS:
                                            return ("shards",)
                                        return tuple(abstract(y) if isinstance(y, tuple) else y for y in x) if isinstance(x, tuple) else x
                                    mapping = ("expr", repr(abstract(strip_site(idx))))
                        elif tgt[0] == "param":
                            whole = True
                    o = {"fn": root, "bb": e.bb, "site_fn": e.fn, "kind": kind, "shard_arg": shard_arg, "args": list(e.args[1:]), "term": e.t, "whole": whole, "seq": e.seq, "mapping": mapping}
                    seq.append(o)
                    key = (e.fn.name, e.bb, kind, repr(strip_site(shard_arg)) if shard_arg is not None else None)
                    if key not in seen:
                        seen.add(key)
                        self.ops.append(o)
                seqs.append(seq)
            self.root_paths[root.name] = seqs
        self.register_fns = {o["fn"].name for o in self.ops if o["kind"] == "insert"}
        self.unregister_fns = {o["fn"].name for o in self.ops if o["kind"] == "remove"} - self.register_fns
        self.move_fns = {o["fn"].name for o in self.ops if o["kind"] == "remove"} & self.register_fns
        self.register_only = self.register_fns - self.move_fns

    def move_check(self, name):
        """(ok, why) for a function that moves an index entry: on every path it first removes the id from the shard of one
        expiry and then inserts it under the shard of another, same id, own expiry"""
        seqs = self.root_paths.get(name) or []
        if not seqs:
            return False, "no path"
        for seq in seqs:
            ops = [o for o in seq if o["kind"] in ("insert", "remove")]
            if [o["kind"] for o in ops] != ["remove", "insert"]:
                return False, "a path performs %s instead of remove then insert" % [o["kind"] for o in ops]
            rem, ins = ops
            if rem["shard_arg"] is None or ins["shard_arg"] is None:
                return False, "shard not derived from an expiry"
            if strip_site(rem["shard_arg"]) == strip_site(ins["shard_arg"]):
                return False, "removes from and inserts into the shard of the same expiry"
            from core import same_value
            if not same_value(rem["args"][0], ins["args"][0]):
                return False, "removes one id and inserts another"
            if len(ins["args"]) < 2 or strip_site(ins["args"][1]) != strip_site(ins["shard_arg"]):
                return False, "the new entry is not stored under the shard of its own expiry"
        return True, "%d path(s)" % len(seqs)
