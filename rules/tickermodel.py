"""Expiry-index vocabulary (C04/C08/C10): the ticker type, its shard function, and every map operation
with the shard expression it is performed under."""
from core import strip_site, root_calls, subexprs, is_call_to, fmt, lock_call


class TickerModel:
    def __init__(self, ctx):
        F = self.F = ctx.facts
        self.adt = None
        for name, adt in F.adts.items():
            if adt["kind"] == "Struct":
                for fl in adt["variants"][0]["fields"]:
                    if "HashMap<u64, std::time::SystemTime" in fl["ty"] and "RwLock<" in fl["ty"]:
                        self.adt, self.SHARDS = name, fl["name"]
        self.shard_fns = set()
        self.ops = []          # dict(fn, bb, kind, shard_arg, key, value, term)
        if not self.adt:
            return
        short = self.adt.split("::")[-1]
        for name, f in F.fns.items():
            r = f.origin_local(0)
            if f.rec.get("ret") == "usize" and r[0] == "binop" and r[1] == "Rem" and f.argc >= 1 and short in f.locals[1]["ty"]:
                self.shard_fns.add(name)
        # Operations are read off path-sensitive paths (sym.py) of the ticker's *entry points*: its functions called from
        # outside the type, and the thread closures it spawns.  Private helpers, closures and generic
        # `with_locked_shard(t, |shard| ..)` wrappers are inlined, so an operation is always seen with the shard
        # expression in the entry point's own terms, and `update = delete(old); put(new)` is seen as remove + insert.
        from sym import ipaths
        spawn = F.spawn_closures()

        def of_ticker(g):
            return g.kind != "Closure" and g.argc >= 1 and short in g.locals[1]["ty"]
        tick_fns = [g for n_, g in F.fns.items() if of_ticker(g)]
        roots = []
        for g in tick_fns:
            callers = [h for h in F.fns.values() for b_, t_ in h.calls() if t_.get("rpath") == g.name and t_["res"] == "item"]
            outside = [h for h in callers if not (of_ticker(h) or (h.kind == "Closure" and any(h.name.startswith(x.name + "::") for x in tick_fns)))]
            if outside or not callers:
                roots.append(g)
        for cdef, parent in spawn.items():
            pf = F.fn(parent)
            if pf is not None and of_ticker(pf) and F.fn(cdef) is not None:
                roots.append(F.fn(cdef))
        self.roots = roots
        self.root_paths = {}
        for root in roots:
            paths = ipaths(F, root, stop=lambda n_: n_ in self.shard_fns, depth=3)
            seqs = []
            seen = set()
            for p_ in paths:
                seq = []
                for e in p_.events:
                    c = e.generic
                    if not c.startswith("hashbrown::HashMap::<K, V, S, A>::") or "std::time::SystemTime" not in " ".join((e.t.get("gargs") or [])[:2]):
                        continue
                    kind = c.split("::")[-1]
                    recv = e.args[0]
                    locks = [x for x in root_calls(recv) if lock_call({"rpath": x[1], "gargs": ["", "hashbrown::HashMap<u64, std::time::SystemTime"]})]
                    shard_arg = None
                    whole = False
                    if locks and locks[0][2]:
                        tgt = locks[0][2][0]
                        if tgt[0] == "index":
                            idx = tgt[2]
                            if idx[0] == "call" and idx[1] in self.shard_fns:
                                shard_arg = idx[2][1]
                        elif tgt[0] == "param":
                            whole = True
                    o = {"fn": root, "bb": e.bb, "site_fn": e.fn, "kind": kind, "shard_arg": shard_arg, "args": list(e.args[1:]), "term": e.t, "whole": whole, "seq": e.seq}
                    seq.append(o)
                    key = (e.fn.name, e.bb, kind, repr(strip_site(shard_arg)) if shard_arg is not None else None)
                    if key not in seen:
                        seen.add(key)
                        self.ops.append(o)
                seqs.append(seq)
            self.root_paths[root.name] = seqs
        self.register_fns = {o["fn"].name for o in self.ops if o["kind"] == "insert"}
        self.unregister_fns = {o["fn"].name for o in self.ops if o["kind"] == "remove"} - self.register_fns
        self.move_fns = {o["fn"].name for o in self.ops if o["kind"] == "remove"} & self.register_fns
        self.register_only = self.register_fns - self.move_fns

    def move_check(self, name):
        """(ok, why) for a function that moves an index entry: on every path it first removes the id from the shard of one
        expiry and then inserts it under the shard of another, same id, own expiry"""
        seqs = self.root_paths.get(name) or []
        if not seqs:
            return False, "no path"
        for seq in seqs:
            ops = [o for o in seq if o["kind"] in ("insert", "remove")]
            if [o["kind"] for o in ops] != ["remove", "insert"]:
                return False, "a path performs %s instead of remove then insert" % [o["kind"] for o in ops]
            rem, ins = ops
            if rem["shard_arg"] is None or ins["shard_arg"] is None:
                return False, "shard not derived from an expiry"
            if strip_site(rem["shard_arg"]) == strip_site(ins["shard_arg"]):
                return False, "removes from and inserts into the shard of the same expiry"
            from core import same_value
            if not same_value(rem["args"][0], ins["args"][0]):
                return False, "removes one id and inserts another"
            if len(ins["args"]) < 2 or strip_site(ins["args"][1]) != strip_site(ins["shard_arg"]):
                return False, "the new entry is not stored under the shard of its own expiry"
        return True, "%d path(s)" % len(seqs)
