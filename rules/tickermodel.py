"""Expiry-index vocabulary (C04/C08/C10): the ticker type, its shard function, and every map operation
with the shard expression it is performed under."""
from core import strip_site, root_calls, subexprs, is_call_to, fmt, lock_call


class TickerModel:
    def __init__(self, ctx):
        F = self.F = ctx.facts
        self.adt = None
        for name, adt in F.adts.items():
            if adt["kind"] == "Struct":
                for fl in adt["variants"][0]["fields"]:
                    if "HashMap<u64, std::time::SystemTime" in fl["ty"] and "RwLock<" in fl["ty"]:
                        self.adt, self.SHARDS = name, fl["name"]
        self.shard_fns = set()
        self.ops = []          # dict(fn, bb, kind, shard_arg, key, value, term)
        if not self.adt:
            return
        short = self.adt.split("::")[-1]
        for name, f in F.fns.items():
            r = f.origin_local(0)
            if f.rec.get("ret") == "usize" and r[0] == "binop" and r[1] == "Rem" and f.argc >= 1 and short in f.locals[1]["ty"]:
                self.shard_fns.add(name)
        for name, f in F.fns.items():
            for bb, t in f.calls():
                c = t["callee"]
                if not c.startswith("hashbrown::HashMap::<K, V, S, A>::"):
                    continue
                if "std::time::SystemTime" not in " ".join(t.get("gargs", [])[:2]):
                    continue
                kind = c.split("::")[-1]
                recv = f.op_origin(t["args"][0])
                locks = [x for x in root_calls(recv) if lock_call({"rpath": x[1], "gargs": ["", "hashbrown::HashMap<u64, std::time::SystemTime"]})]
                shard_arg = None
                whole = False
                if locks and locks[0][2]:
                    tgt = locks[0][2][0]
                    if tgt[0] == "index":
                        idx = tgt[2]
                        if idx[0] == "call" and idx[1] in self.shard_fns:
                            shard_arg = idx[2][1]
                    elif tgt[0] == "param":
                        whole = True     # iterating all shards (clear)
                args = [f.op_origin(a) for a in t["args"][1:]]
                self.ops.append({"fn": f, "bb": bb, "kind": kind, "shard_arg": shard_arg, "args": args, "term": t, "whole": whole})
        # effective operations: a ticker function that delegates to other ticker functions performs their
        # operations, with its own arguments substituted (so `update = delete(old); put(new)` is seen as remove+insert)
        from core import subst_params
        direct = list(self.ops)
        by_fn = {}
        for o in direct:
            by_fn.setdefault(o["fn"].name, []).append(o)
        for _ in range(3):
            added = False
            for name, f in F.fns.items():
                if f.kind == "Closure":
                    continue
                for bb, t in f.calls():
                    g = t.get("rpath")
                    if g in by_fn and g != name and t["res"] == "item":
                        args = [f.op_origin(a) for a in t["args"]]
                        for o in by_fn[g]:
                            if o["whole"]:
                                continue
                            eo = {"fn": f, "bb": bb, "kind": o["kind"], "whole": False, "term": t, "via": g,
                                  "shard_arg": subst_params(o["shard_arg"], args) if o["shard_arg"] is not None else None,
                                  "args": [subst_params(a, args) for a in o["args"]]}
                            key = (name, bb, o["kind"], repr(eo["shard_arg"]))
                            if key not in {(x["fn"].name, x["bb"], x["kind"], repr(x["shard_arg"])) for x in by_fn.get(name, [])}:
                                # only for functions of the ticker type itself (callers outside are clients)
                                if f.argc >= 1 and short in f.locals[1]["ty"]:
                                    by_fn.setdefault(name, []).append(eo)
                                    added = True
            if not added:
                break
        self.ops = [o for os_ in by_fn.values() for o in os_]
        self.register_fns = {o["fn"].name for o in self.ops if o["kind"] == "insert"}
        self.unregister_fns = {o["fn"].name for o in self.ops if o["kind"] == "remove"} - self.register_fns
        self.move_fns = {o["fn"].name for o in self.ops if o["kind"] == "remove"} & self.register_fns
        self.register_only = self.register_fns - self.move_fns
