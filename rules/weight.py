"""Shared discovery for the weight-accounting rules (C01, C05, C06, C16): the total-weight lock's write
sites and their classification, the space query, space atoms, admitting functions."""
from core import (inline_ctor, field_path, subst_params, strip_site, subexprs, root_calls, bool_branches, variant_edges, lock_call, dashmap_call,
                  is_call_to, fmt, mentions, const_of)


def guard_root(e, meth, cls):
    """expression rooted in <lock>.meth() of lock class cls"""
    for c in root_calls(e):
        if ("RwLock::<R, T>::" + meth) in c[1] or ("Mutex::<R, T>::" + meth) in c[1]:
            return c
    return None


class WeightModel:
    def __init__(self, ctx):
        self.ctx = ctx
        F = self.F = ctx.facts
        # --- write sites of the total weight (lock class WU) -----------------------------------
        self.sites = []        # dict(fn, bb, idx, kind, amount, rv)
        for name, f in F.fns.items():
            wu_writes = [(bb, t) for bb, t in f.calls() if lock_call(t) and lock_call(t) == ("write", "WU")]
            if not wu_writes:
                continue
            for (b, i, tgt, rv, s) in f.stores():
                roots = [c for c in root_calls(tgt) if "RwLock::<R, T>::write" in c[1]]
                # the total may sit in a crate-local newtype (`struct UsedWeight(i64)`): `guard.0` is the total then
                if roots and tgt[0] == "field" and tgt[2] == "0" and tgt[1][0] == "call":
                    rv = _unwrap_newtype(rv, tgt[1])
                    tgt = tgt[1]
                if not roots or tgt[0] != "call":
                    continue
                g = roots[0]
                kind, amount, exact = classify_write(rv, g)
                self.sites.append({"fn": f, "bb": b, "idx": i, "kind": kind, "amount": amount, "rv": rv, "guard": g, "exact": exact})
        # delta helpers: a function whose only effect on the total is `total (+|-)= <its parameter>` is not a site
        # itself; each of its call sites is, with the argument as the amount (sign taken from a leading negation)
        self.helper_sites = []
        for s in list(self.sites):
            g, amt = s["fn"], s["amount"]
            if s["kind"] in ("increase", "decrease") and isinstance(amt, tuple) and amt[0] == "param" and g.kind != "Closure" \
                    and len([x for x in self.sites if x["fn"] is g]) == 1:
                cs = self.callers(g.name)
                if not cs:
                    continue
                self.sites.remove(s)
                self.helper_sites.append(s)
                for caller, bb, t in cs:
                    arg = caller.op_origin(t["args"][amt[1] - 1])
                    kind = s["kind"]
                    if arg[0] == "unop" and arg[1] == "Neg":
                        arg = arg[2]
                        kind = "decrease" if kind == "increase" else "increase"
                    self.sites.append({"fn": caller, "bb": bb, "idx": None, "kind": kind, "amount": arg, "rv": s["rv"], "guard": s["guard"],
                                       "via": g.name, "exact": s.get("exact", True)})
        self.inc_sites = [s for s in self.sites if s["kind"] == "increase"]
        self.dec_sites = [s for s in self.sites if s["kind"] == "decrease"]
        # --- the space query Q ------------------------------------------------------------------
        self.queries = []
        for name, f in F.fns.items():
            if f.rec.get("ret") == "(i64, bool)" and any(lock_call(t) == ("read", "WU") for bb, t in f.calls()):
                self.queries.append(f)
        self.qnames = {q.name for q in self.queries}
        # --- increase-capable functions (transitively) -------------------------------------------
        direct = {s["fn"].name for s in self.inc_sites}
        self.inc_defs = set(direct)
        changed = True
        while changed:
            changed = False
            for nd in F.nodes:
                if nd["def"] in self.inc_defs:
                    continue
                for bb, k, tgt, c in F.inst_edges(nd["id"]):
                    if k in ("local", "cb") and F.def_of(tgt) in self.inc_defs:
                        self.inc_defs.add(nd["def"])
                        changed = True
                        break

    # ---- callers ---------------------------------------------------------------------------------
    def callers(self, fname):
        out = []
        for name, f in self.F.fns.items():
            for bb, t in f.calls():
                if t.get("rpath") == fname and t["res"] == "item":
                    out.append((f, bb, t))
        return out

    # ---- space atoms -------------------------------------------------------------------------------
    def is_query_field(self, e, W, idx):
        if not (isinstance(e, tuple) and e[0] == "field" and e[2] == idx):
            return None
        c = e[1]
        if c[0] == "call" and c[1] in self.qnames and len(c[2]) >= 2 and strip_site(c[2][1]) == strip_site(W):
            return c
        return None

    def avail_ok(self, fn, A, W, depth=0):
        """every origin of the 'available space' value A is `.0` of the query for W (possibly through a
        parameter bound to one at every call site); returns list of query call exprs or None"""
        members = A[1] if A[0] == "phi" else (A,)
        calls = []
        for m in members:
            q = self.is_query_field(m, W, "0")
            if q:
                calls.append((fn, q))
                continue
            if m[0] == "call" and (m[1].endswith("cmp::Ord::min") or m[1].endswith("cmp::min")) and depth < 3:
                # min(x, _) <= x: an under-estimate of the available space is safe evidence
                subs = [self.avail_ok(fn, a, W, depth + 1) for a in m[2]]
                good = [x for x in subs if x is not None]
                if good:
                    calls += good[0]
                    continue
                return None
            if m[0] == "param" and depth < 3:
                cs = self.callers(fn.name)
                if not cs:
                    return None
                for g, bb, t in cs:
                    args = [g.op_origin(a) for a in t["args"]]
                    a = args[m[1] - 1]
                    Wg = subst_params(W, args)
                    r = self.avail_ok(g, a, Wg, depth + 1)
                    if r is None:
                        # path-sensitive view of the same argument (a value routed through a local enum / helper)
                        from sym import ipaths
                        status = {n for n, h in self.F.fns.items() if h.rec.get("ret", "").endswith("CommandStatus")}
                        vals = []
                        for p in ipaths(self.F, g, stop=lambda n: n in self.inc_defs or n in self.qnames or n in status, depth=2):
                            for e in p.events:
                                if e.fn is g and e.bb == bb and len(e.args) >= m[1]:
                                    vals.append((e.args[m[1] - 1], subst_params(W, list(e.args))))
                        r = []
                        for av, wv in vals:
                            rr = self.avail_ok(g, av, wv, depth + 1)
                            if rr is None:
                                r = None
                                break
                            r += rr
                        if not vals:
                            r = None
                    if r is None:
                        return None
                    calls += r
                continue
            return None
        return calls

    def atom_edges(self, fn, W):
        """CFG edges of fn after which 'available >= W' was established: [(src, dst, source_call_site_block or None, why)]"""
        out = []
        for b, expr, tt, ft in bool_branches(fn):
            q = self.is_query_field(expr, W, "1")
            if q:
                out.append((b, tt, q[3][1], "true edge of query.1"))
                continue
            if expr[0] == "binop" and expr[1] in ("Lt", "Le"):
                op, x, y = expr[1], expr[2], expr[3]
                # Lt(A, W): false edge means A >= W ; Le(W, A): true edge means W <= A
                if op == "Lt" and strip_site(y) == strip_site(W):
                    r = self.avail_ok(fn, x, W)
                    if r is not None:
                        out.append((b, ft, None, "false edge of available < W"))
                elif op == "Le" and strip_site(x) == strip_site(W):
                    r = self.avail_ok(fn, y, W)
                    if r is not None:
                        out.append((b, tt, None, "true edge of W <= available"))
        for b in sorted(fn.live_blocks()):
            ve = variant_edges(fn, b)
            if not ve:
                continue
            scrut, edges = ve
            if scrut[0] == "call" and scrut[1] in self.F.fns:
                H = self.F.fns[scrut[1]]
                WH = abstract_args(W, scrut[2])
                if WH is not None and self.admits(H, WH):
                    for vname, tgt in edges:
                        if vname == "Accepted":
                            out.append((b, tgt, scrut[3][1], "Accepted edge of admitting call %s" % H.name))
        return out

    _admit_cache = {}

    def keep_in_expansion(self, name):
        """vocabulary of the weight rules: never spliced away when a function is expanded"""
        return name in self.qnames or name in {s["fn"].name for s in self.sites} or name in {s["fn"].name for s in self.helper_sites}

    def expanded(self, fn):
        import inline
        if not hasattr(self, "_keep"):
            self._keep = self.keep_in_expansion
        return inline.expand(self.F, fn, self._keep)

    def admits(self, H, WH):
        """H returns Accepted only on paths that end under a space atom for WH, and H never increases the total"""
        key = (id(self.F), H.name, repr(strip_site(WH)))
        if key in self._admit_cache:
            return self._admit_cache[key]
        self._admit_cache[key] = False
        H = self.expanded(H)        # a step of H extracted into a private helper (`evict`, `status_when_exhausted`) is H's own
        ok = H.name not in self.inc_defs
        atoms = self.atom_edges(H, WH) if ok else []
        n_acc = 0
        # locals whose value reaches the return slot through plain moves (a spliced helper returns through a temporary)
        flows = {0}
        grew = True
        while grew:
            grew = False
            for b in H.live_blocks():
                for s in H.blocks[b]["stmts"]:
                    if s["k"] == "assign" and s["place"]["l"] in flows and not s["place"]["p"] and s["rv"]["k"] == "use" \
                            and s["rv"]["op"].get("k") in ("copy", "move") and not s["rv"]["op"]["place"]["p"]:
                        src = s["rv"]["op"]["place"]["l"]
                        if src not in flows:
                            flows.add(src)
                            grew = True
        for b in sorted(H.live_blocks()):
            for i, s in enumerate(H.blocks[b]["stmts"]):
                if s["k"] == "assign" and s["place"]["l"] in flows and not s["place"]["p"]:
                    if s["rv"]["k"] == "use" and s["rv"]["op"].get("k") in ("copy", "move") and not s["rv"]["op"]["place"]["p"] and s["rv"]["op"]["place"]["l"] in flows:
                        continue        # a plain move between two return carriers
                    e = H.origin_rvalue(s["rv"])
                    if e[0] == "agg" and e[2] == "Accepted":
                        n_acc += 1
                        if b in H.reach([0], avoid_edges=[(a[0], a[1]) for a in atoms]):
                            ok = False
                    elif e[0] == "agg" and e[2] in ("Rejected", "ShuttingDown", "Pending"):
                        pass
                    else:
                        ok = False   # forwarded / unknown status: cannot summarise
        ok = ok and n_acc >= 1
        self._admit_cache[key] = ok
        return ok

    def no_increase_between(self, fn, start_block, C):
        """no call to an increase-capable function on any path from after start_block to C (exclusive)"""
        R = fn.reach(fn.succs(start_block), avoid_blocks=[C]) if start_block != C else set()
        bad = []
        for b in R:
            t = fn.term(b)
            if t["k"] == "call" and t.get("rpath") in self.inc_defs and C in fn.reach_after(b):
                bad.append(b)
        return bad

    def guarded_site(self, fn, C, X, depth=0, trail=()):
        """is the increase by X at block C of fn preceded, on every path from the command handler, by a
        space atom for X with no increase in between?  returns (ok, explanation)"""
        atoms = self.atom_edges(fn, X)
        if atoms:
            edges = [(a[0], a[1]) for a in atoms]
            if C not in fn.reach([0], avoid_edges=edges):
                stale = []
                for a in atoms:
                    start = a[2] if a[2] is not None else a[0]
                    stale += self.no_increase_between(fn, start, C)
                if not stale:
                    return True, "guarded in %s by %s" % (fn.name, sorted({a[3] for a in atoms}))
                return False, "an increase-capable call lies between the space check and the increase in %s at %s" % (fn.name, [fn.where(b) for b in stale])
        ok_sym, why_sym = self.guarded_site_sym(fn, C, X)
        if ok_sym:
            return True, why_sym
        only_params = not mentions(X, lambda s: s[0] in ("call", "var", "unknown", "env", "upvar", "built", "phi"))
        if only_params and depth < 8:
            cs = self.callers(fn.name)
            if not cs:
                return False, "reached %s with no space check on the way (%s)" % (fn.name, " <- ".join(trail))
            for g, bb, t in cs:
                args = [g.op_origin(a) for a in t["args"]]
                Xg = subst_params(X, args)
                ok, why = self.guarded_site(g, bb, Xg, depth + 1, trail + (fn.name,))
                if not ok:
                    return False, why
            return True, "guarded in every caller of %s" % fn.name
        return False, "no space check for the added amount %s on the paths to the increase in %s" % (fmt(X), fn.name)


def _guarded_site_sym(self, fn, C, X):
    """path-sensitive form of the guard rule: on every symbolic path of fn that reaches the increase at block C
    (helpers inlined; increase-capable functions, the space query and status-returning functions opaque) an atom
    establishing `available >= X` precedes it with no increase-capable call in between"""
    from sym import ipaths
    F = self.F
    status = {n for n, g in F.fns.items() if g.rec.get("ret", "").endswith("CommandStatus")}
    stop = lambda n: n in self.inc_defs or n in self.qnames or n in status
    paths = ipaths(F, fn, stop=stop, depth=2)
    n_through = 0
    for p in paths:
        pos = None
        for e in p.events:
            if e.fn is fn and e.bb == C:
                pos = e.seq
        if pos is None:
            for tgt, val, w in p.stores:
                if w[0] is fn and w[1] == C:
                    pos = w[3] if len(w) > 3 else None
        if pos is None:
            continue
        n_through += 1
        good = None
        for a in p.atoms:
            if a[4] >= pos:
                continue
            src = None
            if a[0] == "bool":
                e = a[1]
                q = self.is_query_field(e, X, "1")
                if q and a[2]:
                    src = a[4]
                elif e[0] == "binop" and e[1] == "Lt" and strip_site(e[3]) == strip_site(X) and not a[2] and self.avail_ok(fn, e[2], X) is not None:
                    src = a[4]
                elif e[0] == "binop" and e[1] == "Le" and strip_site(e[2]) == strip_site(X) and a[2] and self.avail_ok(fn, e[3], X) is not None:
                    src = a[4]
            elif a[0] == "enum" and a[2] == ("Accepted",) and a[1][0] == "call" and a[1][1] in F.fns:
                H = F.fns[a[1][1]]
                WH = abstract_args(X, a[1][2])
                if WH is not None and self.admits(H, WH):
                    src = a[4]
            if src is None:
                continue
            between = [e for e in p.events if src < e.seq < pos and e.callee in self.inc_defs and not (e.fn is fn and e.bb == C)]
            # the admitting call itself precedes its own atom; an increase between the query call and the atom counts too
            if not between:
                good = a
        if good is None:
            return False, "a path reaches the increase in %s without a preceding space check for %s (%s)" % (fn.name, fmt(X), p.show())
    if n_through:
        return True, "guarded on each of the %d symbolic paths of %s reaching the increase" % (n_through, fn.name)
    return False, "no symbolic path of %s reaches the increase" % fn.name




def _unwrap_newtype(e, guard_call):
    """`guard.0` -> `guard` inside a stored value"""
    if not isinstance(e, tuple) or not e:
        return e
    if e[0] == "field" and e[2] == "0" and e[1][0] == "call" and strip_site(e[1]) == strip_site(guard_call):
        return e[1]
    return tuple(_unwrap_newtype(x, guard_call) if isinstance(x, tuple) else x for x in e)


def classify_write(rv, guard_call):
    """rv stored through the WU write guard -> (kind, amount expr)"""
    def is_guard(e):
        return isinstance(e, tuple) and e[0] == "call" and strip_site(e) == strip_site(guard_call)
    def direct(e):
        if e[0] == "binop" and e[1] == "Add":
            a, b = e[2], e[3]
            if is_guard(a):
                return "increase", b
            if is_guard(b):
                return "increase", a
        if e[0] == "binop" and e[1] == "Sub" and is_guard(e[2]):
            return "decrease", e[3]
        return None
    d = direct(rv)
    if d:
        return d[0], d[1], True
    if rv[0] == "const" and rv[1] == 0:
        return "reset", rv, True
    # `total (+|-) x` wrapped in something else (clamp, min, max, saturating_*): the applied amount is not exactly x
    for sub in subexprs(rv):
        d = direct(sub)
        if d:
            return d[0], d[1], False
    if rv[0] == "call" and ("saturating_add" in rv[1] or "saturating_sub" in rv[1]) and rv[2] and is_guard(rv[2][0]):
        return ("increase" if "add" in rv[1] else "decrease"), rv[2][1], False
    return "unclassified", rv, False


def abstract_args(W, args):
    """inverse of subst_params: express W (caller terms) over the callee's parameters; None if W uses
    something the callee does not receive"""
    sa = [strip_site(a) for a in args]

    def go(e):
        se = strip_site(e)
        for i, a in enumerate(sa):
            if se == a:
                return ("param", i + 1)
        if not isinstance(e, tuple) or not e:
            return e
        if e[0] in ("param", "call", "var", "env", "upvar", "unknown", "built"):
            raise KeyError(e[0])
        return tuple(go(x) if isinstance(x, tuple) else x for x in e)
    try:
        return go(W)
    except KeyError:
        return None


def accounting_flow(ctx, M, RULE):
    """amounts added to / removed from the total agree with the weight recorded per id (R01.4 = R05.4)"""
    F = ctx.facts
    for s in M.inc_sites:
        f = s["fn"]
        X = s["amount"]
        if X[0] == "binop" and X[1] == "Sub":
            new, old = X[2], X[3]
            roots = [c for c in root_calls(old) if "DashMap" in c[1] and ("get_mut" in c[1] or "::get" in c[1])]
            okroot = bool(roots) and field_path(old)[1][-1:] == ["weight"]
            stored = [(b, i) for (b, i, tgt, rv, st) in f.stores()
                      if strip_site(tgt) == strip_site(old) and strip_site(rv) == strip_site(new)]
            ctx.check(okroot and bool(stored), RULE, "%s|update-delta" % f.name,
                      "update: delta = new - recorded weight of the same id, and the recorded weight becomes new",
                      f.where(s["bb"], s["idx"]), "delta=%s" % fmt(X))
            if stored:
                ctx.check(f.must_pass([s["bb"]], [b for b, i in stored]) or any(f.block_dominates(b, s["bb"]) for b, i in stored),
                          RULE, "%s|update-records-on-all-paths" % f.name,
                          "whenever the total is adjusted the recorded weight is rewritten too", f.where(s["bb"], s["idx"]))
        else:
            ins = [(bb, t) for bb, t in f.calls() if dashmap_call(t) == ("insert", "KW")]
            good = False
            for bb, t in ins:
                v = inline_ctor(F, f.op_origin(t["args"][2]))
                if v[0] == "agg":
                    w = dict(v[3]).get("weight")
                    if w is not None and strip_site(w) == strip_site(X):
                        good = f.block_dominates(bb, s["bb"]) or f.must_pass([s["bb"]], [bb])
            ctx.check(good, RULE, "%s|add-records-same-weight" % f.name,
                      "add: the amount added to the total is the weight recorded for the id in the weight map (same function, all paths)",
                      f.where(s["bb"], s["idx"]), "amount=%s" % fmt(X))
    for s in M.dec_sites:
        f = s["fn"]
        X = s["amount"]
        roots = [c for c in root_calls(X) if dashmap_call({"rpath": c[1], "gargs": ["u64", "WeightedKey"]}) and "remove" in c[1]]
        names = field_path(X)[1]
        keyarg_ok = bool(roots) and roots[0][2][1][0] == "param"
        ctx.check(bool(roots) and names[-1:] == ["weight"] and keyarg_ok, RULE, "%s|release-recorded-weight" % f.name,
                  "delete: the amount subtracted is the weight recorded in the entry just removed from the weight map by the same id",
                  f.where(s["bb"], s["idx"]), "amount=%s" % fmt(X))



WeightModel.guarded_site_sym = _guarded_site_sym
