"""C08 — put_or_update changes exactly what was requested, or acts as put.  (DESIGN §4 C08)"""
import itertools
from core import (strip_site, same_value, fmt, enum_paths, path_atoms, path_calls, path_return, ret_variant, mentions,
                  subexprs, is_call_to, root_calls, inline_ctor, const_of, dashmap_call, closure_captures, unclone)
from livemodel import LiveModel, rooted_in_param
from storemodel import StoreModel
from tickermodel import TickerModel
from ackmodel import AckModel

WITNESSES = ['W2EntryUpdatePrivate']
from sym import ipaths, noop_store

LEVEL = "other"
EXPLANATION = ("Finite decision tables extracted from MIR and compared with the specification: the field-wise entry "
               "update over (remove-ttl flag, ttl Some/None, value Some/None); the classification of the expiry "
               "change over (old None/Some, new None/Some, equal?) by abstract evaluation of every path; the pairing "
               "of each classification with the expiry-index operation carrying its payload; the flow of an explicit "
               "weight into the UpdateWeight command and of the request's value/weight/ttl into the fallback put; "
               "and the agreement of the in-place update's lookup with readability (R08.7).")
ASSUMPTIONS = ["Option::or_else(x, f) is x when x is Some, else f()", "the update runs under one exclusive entry guard (DashMap::get_mut)"]


def run(ctx):
    F = ctx.facts
    L = LiveModel(ctx)
    S = StoreModel(ctx)
    T = TickerModel(ctx)
    A = AckModel(ctx)
    if not L.sv:
        ctx.bad("R08.0", "entry-type", "stored-entry type not found", detail="ANCHOR-MISSING")
        return
    sv_short = L.sv.split("::")[-1]
    # ---- R08.1 field-wise update ------------------------------------------------------------------
    upd = []
    for name, f in F.fns.items():
        if f.argc >= 1 and sv_short in f.locals[1]["ty"] and f.kind != "Closure":
            st = [x for x in f.stores() if x[2] == ("field", ("param", 1), L.EXP)]
            if st:
                upd.append(f)
    ctx.floor("R08.1", "entry update functions", len(upd), 1)
    for f in upd:
        ctx.touch(f)
        stores = f.stores()
        rows = {}
        bad = []
        # parameters by type
        ptys = {i: f.locals[i]["ty"] for i in range(2, f.argc + 1)}
        p_remove = [i for i, t in ptys.items() if t == "bool"]
        p_ttl = [i for i, t in ptys.items() if t == "std::option::Option<std::time::Duration>"]
        p_val = [i for i, t in ptys.items() if t.startswith("std::option::Option<") and i not in p_ttl]
        if not (len(p_remove) == 1 and len(p_ttl) == 1 and len(p_val) == 1):
            ctx.bad("R08.1", "%s|signature" % f.name, "update takes (value option, ttl option, remove flag)", f.where(), str(ptys))
            continue
        pr, pt, pv = p_remove[0], p_ttl[0], p_val[0]
        calc_stop = lambda n_: n_.endswith("::calculate_expiry") or (F.fns.get(n_) is not None and F.fns[n_].kind != "Closure" and F.fns[n_].rec.get("ret") == "std::time::SystemTime")
        for p in ipaths(F, f, stop=calc_stop, depth=2):
            rem = [a[2] for a in p.atoms if a[0] == "bool" and a[1] == ("param", pr)]
            tv_ = p.variant_of(("param", pt))
            vv_ = p.variant_of(("param", pv))
            exp_w = [x for x in p.stores if x[0] == ("field", ("param", 1), L.EXP) and not noop_store(p, x[0], x[1])]
            val_w = [x for x in p.stores if x[0][0] == "field" and x[0][1] == ("param", 1) and x[0][2] not in (L.EXP,)]
            other = [x for x in val_w if x[0][2] in (L.SOFT, L.ID)]
            r = rem[0] if rem else None
            t = tv_ if tv_ in (("Some",), ("None",)) else None
            v = vv_ if vv_ in (("Some",), ("None",)) else None
            rows[(r, t, v)] = (len(exp_w), len(val_w))
            if other:
                bad.append("update writes %s" % other[0][0][2])
            if v is None:
                bad.append("value option not examined on a path")
                continue
            if r is True:
                if not (len(exp_w) == 1 and exp_w[0][1][0] == "agg" and exp_w[0][1][2] == "None"):
                    bad.append("remove flag set: expiry must become None")
            elif r is False and t == ("Some",):
                okw = len(exp_w) == 1 and exp_w[0][1][0] == "agg" and exp_w[0][1][2] == "Some" and mentions(exp_w[0][1], lambda s_: s_ == ("field", ("variant", ("param", pt), "Some"), "0"))
                if not okw:
                    bad.append("ttl given: expiry must become Some(now + that ttl)")
            elif r is False and t is not None:
                if exp_w:
                    bad.append("no ttl requested but the expiry is rewritten")
            else:
                bad.append("remove flag / ttl not examined on a path")
            vw = [x for x in val_w if x[0][2] not in (L.SOFT, L.ID)]
            if v == ("Some",):
                if not (len(vw) == 1 and vw[0][1] == ("field", ("variant", ("param", pv), "Some"), "0")):
                    bad.append("value given: the stored value must become exactly that value")
            elif vw:
                bad.append("no value given but the stored value is rewritten")
            if p.ret != ("field", ("param", 1), L.EXP):
                bad.append("update must report the resulting expiry")
        ctx.analysed["paths"] += len(rows)
        ctx.check(not bad and len(rows) >= 6, "R08.1", "%s|fieldwise-update-table" % f.name,
                  "expiry := None iff remove; := Some(now+ttl) iff ttl and not remove; untouched otherwise; value := v iff Some(v); nothing else written (%d rows)" % len(rows),
                  f.where(), "; ".join(sorted(set(bad))[:4]) or str(sorted(rows.items(), key=repr)))

    # ---- R08.2 classification table ------------------------------------------------------------------
    cls = [f for n, f in F.fns.items() if f.rec.get("ret", "").endswith("TypeOfExpiryUpdate")]
    ctx.floor("R08.2", "expiry-change classification functions", len(cls), 1)
    for f in cls:
        ctx.touch(f)
        # symbols: the response's option fields.  E = expiry the entry had (inside the `Some((id, expiry))` field), N = new expiry
        adt = F.adts.get((f.rec.get("self_ty") or "").split("<")[0])
        fields = adt["variants"][0]["fields"] if adt else []
        nf = [x["name"] for x in fields if x["ty"].startswith("std::option::Option<std::time::SystemTime")]
        ef = [x["name"] for x in fields if x["ty"].startswith("std::option::Option<") and "KeyIdExpiry" in x["ty"]]
        bad = []
        paths = []
        if len(nf) != 1 or len(ef) != 1:
            bad.append("cannot tell the existing-expiry and new-expiry fields of the response type apart")
        else:
            me = ("param", 1)
            pair = ("field", ("variant", ("field", me, ef[0]), "Some"), "0")
            E = ("field", pair, "1")
            N = ("field", me, nf[0])
            ID = ("field", pair, "0")
            OLD = ("field", ("variant", E, "Some"), "0")
            NEW = ("field", ("variant", N, "Some"), "0")
            paths = ipaths(F, f, stop=lambda n: False, depth=3, model_unwrap=True)
            ctx.analysed["paths"] += len(paths)

            def sym(x):
                x = strip_site(unclone(x))
                return {ID: "id", OLD: "old", NEW: "new"}.get(x, "?")

            def describe_(r):
                if r[0] != "agg":
                    return fmt(r)[:40]
                fs = [x for _, x in r[3]]
                return r[2] if not fs else "%s(%s)" % (r[2], ",".join(sym(x) for x in fs))
            covered = set()
            for p in paths:
                e, n = p.variant_of(E), p.variant_of(N)
                differ = None
                for a in p.atoms:
                    if a[0] == "bool" and a[1][0] == "call" and a[1][1].endswith(("PartialEq::ne", "PartialEq::eq")) and len(a[1][2]) == 2:
                        ops = {strip_site(unclone(z)) for z in a[1][2]}
                        if ops == {E, N} or ops == {OLD, NEW}:
                            differ = a[2] if a[1][1].endswith("ne") else not a[2]
                        else:
                            bad.append("unrecognised comparison %s" % fmt(a[1])[:80])
                    elif a[0] == "bool" and a[1][0] not in ("phi", "const"):
                        bad.append("unrecognised test %s" % fmt(a[1])[:80])
                got = describe_(p.ret)
                for (e_some, n_some, d) in itertools.product((False, True), repeat=3):
                    if e is not None and (e == ("Some",)) != e_some:
                        continue
                    if n is not None and (n == ("Some",)) != n_some:
                        continue
                    dd = d if (e_some and n_some) else (e_some != n_some)
                    if differ is not None and differ != dd:
                        continue
                    if not (e_some and n_some) and d is False:
                        continue      # `differ` is meaningless unless both are Some: one representative
                    covered.add((e_some, n_some, d))
                    want = oracle(e_some, n_some, d)
                    if got != want:
                        bad.append("(existing %s, new %s, %s) -> %s, expected %s" % ("Some" if e_some else "None", "Some" if n_some else "None", "differ" if d else "equal", got, want))
            allst = {(a_, b_, c_) for (a_, b_, c_) in itertools.product((False, True), repeat=3) if (a_ and b_) or c_}
            if covered != allst:
                bad.append("abstract states never reached: %s" % sorted(allst - covered))
        ctx.check(not bad, "R08.2", "%s|classification-table" % f.name,
                  "None/None -> Nothing; None/Some -> Added(id,new); Some/None -> Deleted(id,old); Some/Some differing -> Updated(id,old,new); Some/Some equal -> Nothing (5 abstract states x %d symbolic paths)" % len(paths),
                  f.where(), "; ".join(sorted(set(bad))[:4]))

    # ---- the public upsert function ---------------------------------------------------------------------
    upd_store = {g.name for g, bb, t in S.lookup_sites if dashmap_call(t)[0] == "get_mut" and "UpdateResponse" in g.rec.get("ret", "")}
    ctx.floor("R08.6", "in-place update functions over the store", len(upd_store), 1)
    ups = [f for n, f in F.fns.items() if f.rec.get("reachable") and f.kind != "Closure" and any(t.get("rpath") in upd_store for b, t in f.calls())]
    ctx.floor("R08.3", "public upsert APIs", len(ups), 1)
    cls_names = {f.name for f in cls}
    for f in ups:
        ctx.touch(f)
        ub = [(b, t) for b, t in f.calls() if t.get("rpath") in upd_store]
        ctx.check(len(ub) == 1, "R08.6", "%s|one-inplace-update" % f.name, "the upsert performs one in-place update attempt on the caller thread (visible when the call returns)", f.where())
        if len(ub) != 1:
            continue
        ubb, ut = ub[0]
        resp = f.origin_call(ubb, ut)
        req = ("param", 2)
        uargs = [f.op_origin(a) for a in ut["args"]]
        ctx.check(uargs[1] == ("field", req, "key") and uargs[2] == ("field", req, "value") and uargs[3] == ("field", req, "time_to_live") and uargs[4] == ("field", req, "remove_time_to_live"),
                  "R08.6", "%s|update-gets-request-fields" % f.name, "the in-place update receives the request's key, value, ttl and remove flag unchanged", f.where(ubb), str([fmt(a) for a in uargs[1:]]))
        sends_all = [b for b, t in f.calls() if t.get("rpath") in A.send_fns]
        ctx.check(all(f.block_dominates(ubb, b) for b in sends_all), "R08.6", "%s|update-before-queueing" % f.name, "the in-place update precedes anything that is queued", f.where(ubb))
        uw_fns = {n for n, g in F.fns.items() if n.endswith("::updated_weight") and g.kind != "Closure"}
        opaque = set(upd_store) | set(A.send_fns) | set(T.register_only) | set(T.unregister_fns) | set(T.move_fns) | cls_names | uw_fns
        paths = ipaths(F, f, stop=lambda n: n in opaque, depth=3, model_unwrap=True)
        ctx.analysed["paths"] += len(paths)
        bad3, bad4, bad5 = [], [], []
        seen_variants = set()
        n_fallback = 0
        for p in paths:
            ue = [e for e in p.events if e.fn is f and e.bb == ubb]
            if not ue:
                continue
            resp_p = ue[0].res
            did = p.variant_of(("field", resp_p, "0"))
            sends = p.calls(A.send_fns)
            reg = p.calls(T.register_only)
            unreg = p.calls(T.unregister_fns)
            mov = p.calls(T.move_fns)
            if did not in (("Some",), ("None",)):
                bad5.append(("the update outcome is not examined", p))
                continue
            uw = [e for e in p.events if e.callee in uw_fns]
            if did == ("None",):
                # ---- fallback: acts as put -------------------------------------------------------
                n_fallback += 1
                if reg or unreg or mov:
                    bad5.append(("fallback path touches the expiry index", p))
                if len(sends) != 1:
                    bad5.append(("fallback queues %d commands" % len(sends), p))
                    continue
                cmd = sends[0].args[1]
                ttl_v = p.variant_of(("field", req, "time_to_live"))
                want = "PutWithTTL" if ttl_v == ("Some",) else "Put"
                if ttl_v not in (("Some",), ("None",)) or cmd[0] != "agg" or cmd[2] != want:
                    bad5.append(("fallback sends %s, expected %s" % (cmd[2] if cmd[0] == "agg" else fmt(cmd)[:60], want), p))
                    continue
                fields = dict(cmd[3])
                kd = inline_ctor(F, fields["0"])
                kdf = dict(kd[3]) if kd[0] == "agg" else {}
                val_ok = same_value(fields["1"], ("field", ("variant", ("field", resp_p, "2"), "Some"), "0"))
                wv = kdf.get("weight", ())
                w_ok = bool(uw) and any(same_value(wv, ("field", ("variant", u.res, "Some"), "0")) for u in uw) and \
                    all(u.args[0] == req for u in uw)
                k_ok = same_value(kdf.get("key", ()), ("field", req, "key"))
                t_ok = want == "Put" or same_value(fields.get("2"), ("field", ("variant", ("field", req, "time_to_live"), "Some"), "0"))
                if not (val_ok and w_ok and k_ok and t_ok):
                    bad5.append(("fallback put does not carry the request's key/value/weight/ttl (key %s value %s weight %s ttl %s)" % (k_ok, val_ok, w_ok, t_ok), p))
                continue
            # ---- update happened -------------------------------------------------------------------
            ce = [e for e in p.events if e.callee in cls_names and strip_site(e.args[0]) == strip_site(resp_p)]
            vs = p.variant_of(ce[0].res) if ce else None
            if not ce or vs is None or any(v.startswith("!") for v in vs):
                bad3.append(("expiry change is not classified", p))
                continue
            cexpr = ce[0].res
            for v in vs:
                seen_variants.add(v)

            def payload(v, i):
                return ("field", ("variant", strip_site(cexpr), v), str(i))

            def arg(e, i):
                return strip_site(e.args[i])
            if vs == ("Added",):
                if not (len(reg) == 1 and not unreg and not mov and arg(reg[0], 1) == payload("Added", 0) and arg(reg[0], 2) == payload("Added", 1)):
                    bad3.append(("Added must register (id, new expiry) exactly once", p))
            elif vs == ("Deleted",):
                if not (len(unreg) == 1 and not reg and not mov and arg(unreg[0], 1) == payload("Deleted", 0) and arg(unreg[0], 2) == payload("Deleted", 1)):
                    bad3.append(("Deleted must unregister (id, old expiry) exactly once", p))
            elif vs == ("Updated",):
                if not (len(mov) == 1 and not reg and not unreg and arg(mov[0], 1) == payload("Updated", 0) and arg(mov[0], 2) == payload("Updated", 1) and arg(mov[0], 3) == payload("Updated", 2)):
                    bad3.append(("Updated must move (id, old, new) exactly once", p))
            else:
                if reg or unreg or mov:
                    bad3.append(("no expiry change but the index is touched", p))
            # weight command: an explicitly requested (or value-derived) weight is always queued, unchanged, for the updated id
            if len(sends) > 1:
                bad4.append(("%d commands queued" % len(sends), p))
            if len(uw) != 1 or uw[0].args[0] != req:
                bad4.append(("the weight to apply is not asked of the request exactly once", p))
                continue
            has = p.variant_of(uw[0].res)
            if has not in (("Some",), ("None",)):
                bad4.append(("whether the request carries a weight to apply is not examined", p))
                continue
            if has == ("Some",) and len(sends) != 1:
                bad4.append(("a weight is to be applied but %d UpdateWeight commands are queued (the charged weight would not follow the request)" % len(sends), p))
            the_id = ("field", ("field", ("variant", ("field", resp_p, "0"), "Some"), "0"), "0")
            for e in sends:
                cmd = e.args[1]
                if not (cmd[0] == "agg" and cmd[2] == "UpdateWeight"):
                    bad4.append(("an updated key queues %s" % (cmd[2] if cmd[0] == "agg" else "?"), p))
                    continue
                fields = dict(cmd[3])
                idok = same_value(fields["0"], the_id)
                w = fields["1"]
                wok = same_value(w, ("field", ("variant", uw[0].res, "Some"), "0")) if has == ("Some",) else \
                    (vs in (("Added",), ("Deleted",)) and not mentions(w, lambda s_: s_[0] in ("phi", "unknown")))
                if not (idok and wok):
                    bad4.append(("UpdateWeight does not carry (updated id, requested-or-derived weight): id ok %s, weight %s" % (idok, fmt(w)[:100]), p))
        ctx.check(not bad3 and seen_variants >= {"Added", "Deleted", "Updated", "Nothing"}, "R08.3", "%s|classification-drives-index" % f.name,
                  "Added -> register(id,new); Deleted -> unregister(id,old); Updated -> move(id,old,new); Nothing -> no index operation", f.where(),
                  "; ".join("%s %s" % (w, q.show()) for w, q in bad3[:3]) or "variants seen %s" % sorted(seen_variants))
        ctx.check(not bad4, "R08.4", "%s|weight-command" % f.name,
                  "an updated key queues at most one command, UpdateWeight(id of the updated entry, weight), where an explicitly requested weight takes precedence unchanged", f.where(),
                  "; ".join("%s %s" % (w, q.show()) for w, q in bad4[:3]))
        ctx.check(not bad5 and n_fallback >= 2, "R08.5", "%s|fallback-acts-as-put" % f.name,
                  "when nothing was updated the upsert queues exactly one Put (PutWithTTL iff a ttl was given) carrying the request's key, value, weight and ttl, and touches nothing else (%d fallback paths)" % n_fallback, f.where(),
                  "; ".join("%s %s" % (w, q.show()) for w, q in bad5[:3]))
    # ---- R08.8 the index operations the upsert relies on do what their classification requires (shared with C10 R10.1)
    import c10
    for o in ctx.own_of("c10"):
        if o["rule"] == "R10.1" and any(x in o["key"] for x in ("move-old-to-new", "insert-under-own-expiry", "shard-from-expiry")):
            ctx._add(o["status"], "R08.8", o["key"].split("|", 1)[1], o["desc"] + " [the upsert's TTL change is only effective if the expiry index follows it]", o["where"], o["detail"])

    # ---- R08.4: explicit weight first; derived weight uses the ttl flag --------------------------------------
    for n, g in F.fns.items():
        if n.endswith("::updated_weight") and g.kind != "Closure":
            me = ("param", 1)
            WGT, VAL, TTL = ("field", me, "weight"), ("field", me, "value"), ("field", me, "time_to_live")
            bad = []
            rows = set()
            for p in ipaths(F, g, stop=lambda n_: False, depth=3, model_unwrap=True):
                w, v = p.variant_of(WGT), p.variant_of(VAL)
                rv = p.ret_variant()
                if w == ("Some",):
                    rows.add("explicit")
                    if not (rv == ("Some",) and same_value(p.payload_of(p.ret), ("field", ("variant", WGT, "Some"), "0"))):
                        bad.append("an explicitly requested weight is not returned unchanged: %s" % fmt(p.ret)[:80])
                elif w == ("None",) and v == ("None",):
                    rows.add("nothing")
                    if rv != ("None",):
                        bad.append("neither weight nor value requested but a weight is produced")
                elif w == ("None",) and v == ("Some",):
                    rows.add("derived")
                    calls = [e for e in p.events if e.generic.startswith("std::ops::Fn") and e.args[0] == ("param", 2)]
                    okd = rv == ("Some",) and len(calls) == 1 and same_value(p.payload_of(p.ret), calls[0].res)
                    if okd:
                        a = dict(calls[0].args[1][3]) if calls[0].args[1][0] == "agg" else {}
                        flag = a.get("2")
                        tv = p.variant_of(TTL)
                        flag_ok = (flag is not None and flag[0] == "const" and tv in (("Some",), ("None",)) and bool(flag[1]) == (tv == ("Some",))) or \
                            (is_call_to(flag, "Option::<T>::is_some") and strip_site(flag[2][0]) == TTL)
                        okd = same_value(a.get("0"), ("field", me, "key")) and same_value(a.get("1"), ("field", ("variant", VAL, "Some"), "0")) and flag_ok
                    if not okd:
                        bad.append("a value without an explicit weight must yield Some(weight_fn(key, that value, ttl given?)): %s" % fmt(p.ret)[:100])
                else:
                    bad.append("a path does not decide whether a weight / value was requested (weight=%s value=%s)" % (w, v))
            ctx.check(not bad and rows == {"explicit", "nothing", "derived"}, "R08.4", "%s|explicit-weight-first" % n,
                      "the weight to apply is the explicitly requested one if present, else derived from the new value (with the ttl flag), else none", g.where(), "; ".join(sorted(set(bad))[:3]) or str(sorted(rows)))
    # worker arm forwards (id, weight)
    import c11
    W = c11.find_worker(ctx, A)
    if W is not None:
        okf = False
        for p_ in c11.worker_paths(ctx, A, W):
            for e in p_.events:
                if e.log or not (e.t["res"] == "item" and e.t.get("rlocal")):
                    continue
                ids = [a for a in e.args if a[0] == "field" and a[1][0] == "variant" and a[1][2] == "UpdateWeight"]
                if len(ids) == 2 and [a[2] for a in ids] == ["0", "1"]:
                    okf = True
        ctx.check(okf, "R08.4", "%s|worker-applies-id-weight" % W.name, "the worker applies UpdateWeight(id, w) as update(id, w), payloads in order", W.where())

    # ---- R08.9 the in-place update hands the request through unchanged to the entry update -------------------------
    upd_entry = {f.name for f in upd}
    for g in [F.fn(n) for n in sorted(upd_store)]:
        calls = [(b, t) for b, t in g.calls() if t.get("rpath") in upd_entry]
        ctx.check(len(calls) == 1, "R08.9", "%s|one-entry-update" % g.name, "the in-place update applies exactly one entry update", g.where())
        # per path: a response that says "updated" reports, as the new expiry, what the entry update returned (R08.1: the
        # entry's resulting expiry) - or, if the path changes nothing, the expiry the entry already had.  Otherwise the
        # classification (R08.2) acts on a made-up pair and the expiry index drifts from the stored expiry.
        badp = []
        n_upd = 0
        for p in ipaths(F, g, stop=lambda n: n in upd_entry or n in L.alive_fns, depth=2):
            r = p.ret
            if not (r[0] == "agg" and len(r[3]) >= 2):
                badp.append("the response is not built in this function (%s)" % fmt(r)[:60])
                continue
            f0, f1 = r[3][0][1], r[3][1][1]
            if p.variant_of(f0) != ("Some",):
                continue
            n_upd += 1
            pair = p.payload_of(f0)
            pair = inline_ctor(F, pair) if pair is not None else None
            existing = pair[3][1][1] if pair is not None and pair[0] == "agg" and len(pair[3]) >= 2 else None
            ups = p.calls(upd_entry)
            if len(ups) == 1:
                if strip_site(f1) != strip_site(ups[0].res):
                    badp.append("the new expiry reported is not the result of the entry update: %s" % fmt(f1)[:60])
            elif len(ups) == 0:
                if existing is None or not same_value(f1, existing):
                    badp.append("a path that updates nothing reports a new expiry (%s) different from the entry's own" % fmt(f1)[:60])
            else:
                badp.append("%d entry updates on one path" % len(ups))
        ctx.check(not badp and n_upd >= 1, "R08.9", "%s|response-reports-resulting-expiry" % g.name,
                  "whenever the in-place update reports an updated entry, the new expiry it reports is the entry's expiry after the update (%d updated paths)" % n_upd,
                  g.where(), "; ".join(sorted(set(badp))[:3]))
        for b, t in calls:
            args = [g.op_origin(a) for a in t["args"]]
            params_ok = sorted(a[1] for a in args[1:] if a[0] == "param") == [3, 4, 5]
            clock_ok = any(a[0] == "field" and a[1] == ("param", 1) for a in args[1:])
            ctx.check(params_ok and clock_ok, "R08.9", "%s|request-forwarded-unchanged" % g.name,
                      "the value, the ttl and the remove flag reach the entry update exactly as they were passed in (not filtered, defaulted or replaced), with the store's clock",
                      g.where(b), str([fmt(a) for a in args[1:]]))

    # ---- R08.10 an upsert of a key that reads as absent acts exactly as the put: the in-place update attempt itself neither
    # removes nor inserts a store entry (retiring a dead incarnation - entry, weight, index entry together - is the
    # worker's job when the queued put runs; a removal here leaves the old weight and the old index entry behind)
    for g in [F.fn(n) for n in sorted(upd_store)]:
        muts = []
        for p_ in ipaths(F, g, stop=lambda n: False, depth=3):
            for e in p_.events:
                dc = dashmap_call(e.t)
                if dc and dc[1] == "S" and dc[0] in ("remove", "remove_if", "remove_if_mut", "insert", "clear", "retain"):
                    muts.append("%s in %s" % (dc[0], e.fn.name.split("::")[-1]))
        ctx.check(not muts, "R08.10", "%s|update-attempt-neither-removes-nor-inserts" % g.name,
                  "the in-place update attempt changes an entry it found alive or nothing at all: it never removes or inserts store entries", g.where(), "; ".join(sorted(set(muts))[:3]))

    # ---- R08.11 the weight of an upsert is applied by key id (UpdateWeight(id, w)): two keys must never share an id
    import c10 as c10_
    for o in ctx.own_of("c10"):
        if o["rule"] == "R10.5" and o["key"].endswith("ids-fresh"):
            ctx._add(o["status"], "R08.11", "ids-fresh", o["desc"] + " [UpdateWeight, the expiry index and the weight map all address an entry by its id]", o["where"], o["detail"])

    # ---- R08.7 in-place update agrees with readability -------------------------------------------------------
    for g, bb, t in S.lookup_sites:
        if g.name in upd_store:
            ok, form = L.lookup_applies_liveness(g, bb, t)
            ctx.check(ok, "R08.7", "%s|update-honours-liveness" % g.name,
                      "the in-place update applies is_alive to the entry it finds: a key that reads as absent (expired-unswept, soft-deleted) must take the put path instead of being silently updated",
                      g.where(bb), form)


def oracle(e_some, n_some, differ):
    if not e_some and not n_some:
        return "Nothing"
    if not e_some and n_some:
        return "Added(id,new)"
    if e_some and not n_some:
        return "Deleted(id,old)"
    return "Updated(id,old,new)" if differ else "Nothing"


def describe(r, E, N):
    if r[0] != "agg":
        return fmt(r)[:40]
    v = r[2]
    fields = [x for _, x in r[3]]

    def sym(x):
        if is_call_to(x, "unwrap") and strip_site(x[2][0]) == E:
            return "old"
        if is_call_to(x, "unwrap") and strip_site(x[2][0]) == N:
            return "new"
        if is_call_to(x, "key_id_or_panic"):
            return "id"
        return "?"
    if not fields:
        return v
    return "%s(%s)" % (v, ",".join(sym(x) for x in fields))
