"""C02 — reads return only the current value of the key, never stale or foreign (necessary structure).  (DESIGN §4 C02)"""
from core import (closure_captures, strip_site, same_value, fmt, enum_paths, path_atoms, path_calls, path_return, ret_variant, mentions,
                  subexprs, is_call_to, root_calls, dashmap_call, inline_ctor, unclone, peel_identity)
from livemodel import LiveModel
from storemodel import StoreModel
import c13
import c15

WITNESSES = ['W1SoftDeletePrivate', 'W2EntryUpdatePrivate', 'W3GetRefShared', 'W5InternalsUnreachable']
from iters import elem_loops, parse_iter, ELEM

LEVEL = "other"
EXPLANATION = ("Necessary structure of 'reads return only the current value of the key': every public read variant "
               "reaches the value store only through lookup functions that perform exactly one lookup per call, "
               "keyed by the caller's key, and return the entry's value only after the liveness predicate held on "
               "the same entry guard; the key flows unchanged through every layer (including multi_get and both "
               "iterators; each iterator step yields only a value read during that step); no public function hands out a mutable reference into the store; the value the worker "
               "inserts and the key it inserts it under come from the same dequeued command. The history-level "
               "statement (no stale value under any interleaving) follows by a hand argument from per-shard lock "
               "atomicity and is not computed.")
ASSUMPTIONS = ["DashMap get/insert/remove/get_mut are atomic per key (one shard lock)", "single worker orders inserts and removals (C11)"]


def run(ctx):
    F = ctx.facts
    L = LiveModel(ctx)
    S = StoreModel(ctx)
    ca = c13.cache_adt(F)
    if not ca or not L.sv:
        ctx.bad("R02.0", "anchors", "cache type / stored-entry type not found", detail="ANCHOR-MISSING")
        return
    cname = ca[0]
    spawn = F.spawn_closures()
    # value-returning lookup functions
    readers = {}
    for f, bb, t in S.lookup_sites:
        if f.rec.get("ret", "").startswith("std::option::Option<") and dashmap_call(t)[0] == "get":
            readers.setdefault(f.name, []).append((f, bb, t))
    ctx.floor("R02.3", "value-returning store lookup functions", len(readers), 1)
    for name, sites in sorted(readers.items()):
        f = sites[0][0]
        ctx.touch(f)
        bad = [p for p in enum_paths(f) if len([b for b in p if any(b == bb for _, bb, _ in sites)]) != 1]
        ctx.check(not bad and len(sites) == 1, "R02.3", "%s|one-lookup-per-call" % name, "exactly one store lookup per call: check and read happen under one entry guard", f.where())
        for _, bb, t in sites:
            ok, form = L.lookup_applies_liveness(f, bb, t)
            ctx.check(ok, "R02.3", "%s|value-only-if-alive" % name, "the value is returned only if is_alive held on the very entry that was found", f.where(bb), form)
            k = f.op_origin(t["args"][1])
            ctx.check(k == ("param", 2), "R02.2", "%s|lookup-by-callers-key" % name, "the store is looked up with the key passed by the caller", f.where(bb), fmt(k))
            # the returned value is derived from that entry and nothing else
            r = f.origin_local(0)
            lookup = f.origin_call(bb, t)
            foreign = [s for s in subexprs(r) if s[0] == "call" and dashmap_call({"rpath": s[1], "gargs": ["K", "StoredValue"]}) and strip_site(s) != strip_site(lookup)]
            ctx.check(not foreign and mentions(r, lambda s: strip_site(s) == strip_site(lookup)), "R02.3", "%s|returns-found-entry" % name,
                      "what is returned is (a projection of) the entry found by that lookup", f.where(bb))

    # ---- R02.1 funnel ------------------------------------------------------------------------------
    reads = []
    for name, f in F.fns.items():
        if not f.rec.get("reachable") or f.kind == "Closure":
            continue
        st = f.rec.get("self_ty", "")
        is_iter = f.rec.get("impl_trait") == "std::iter::Iterator" and c13.cache_reaching_iter(F, st, cname)
        if (st.startswith(cname) and "CommandAcknowledgement" not in f.rec.get("ret", "") and name.split("::")[-1] not in ("new", "shutdown", "total_weight_used", "stats_summary")) or is_iter:
            reads.append(f)
    ctx.floor("R02.1", "public read variants", len(reads), 9)
    helper_ok = set(readers)
    # wrappers of readers that only add counting (hit/miss) are fine: they contain no store op themselves
    store_fns = {f.name for m in S.ops for f, bb, t in S.ops[m]}
    for f in reads:
        ctx.touch(f)
        touched = set()
        for nid in F.insts_of(f.name):
            for n in F.inst_reach([nid], stop=lambda n: F.def_of(n) in spawn):
                if F.def_of(n) in store_fns:
                    touched.add(F.def_of(n))
        ctx.check(touched <= helper_ok, "R02.1", "%s|reads-through-filtered-lookups-only" % f.name,
                  "a read variant touches the value store only through the liveness-filtered single-lookup functions", f.where(), str(sorted(touched - helper_ok)))
    # key flows unchanged through the read API layers
    read_names = {f.name for f in reads}
    for f in reads:
        for bb, t in f.calls():
            tgt = t.get("rpath")
            if tgt in read_names or tgt in readers or (tgt in F.fns and any(tt.get("rpath") in readers for b2, tt in F.fns[tgt].calls())):
                if len(t["args"]) < 2:
                    continue
                k = peel_identity(f.op_origin(t["args"][1]))
                own_key = k == ("param", 2)
                if not own_key and k[0] == "field" and k[1][0] == "variant" and k[1][2] == "Some" and is_call_to(k[1][1], "::next") and k[1][1][2]:
                    # `for key in keys { .. self.get(key) .. }`: an element of the caller's own key list (pairing checked below)
                    src = parse_iter(k[1][1][2][0]) or []
                    own_key = len(src) == 1 and src[0][0] == "all" and strip_site(src[0][1]) == ("param", 2)
                from_list = mentions(k, lambda s: s[0] == "field" and s[2] == "keys")
                if f.rec.get("impl_trait") == "std::iter::Iterator":
                    ctx.check(from_list, "R02.2", "%s|key-from-own-list" % f.name, "the iterator looks up a key taken from its own key list", f.where(bb), fmt(k))
                else:
                    ctx.check(own_key, "R02.2", "%s|forwards-callers-key" % f.name, "the caller's key is forwarded unchanged to the next layer", f.where(bb), fmt(k))
    # closures of read APIs (multi_get): pair (key, get(key)) from the same closure parameter
    pairings = {}
    for f in reads:
        for c in F.closures_of(f):
            for bb, t in c.calls():
                if t.get("rpath") in read_names:
                    k = c.op_origin(t["args"][1])
                    r = c.origin_local(0)
                    ok = k == ("param", 2)
                    if not ok and k[0] == "field" and k[1] == ("env",):
                        # a closure without a key parameter (`with_check(|| self.get(key))`): the captured key must be the caller's
                        cc = closure_captures(F, c.name)
                        ok = bool(cc) and cc[1].get(k[2]) == ("param", 2)
                    if r[0] == "agg" and r[1] == "tuple":
                        ok = ok and r[3][0][1] == ("param", 2) and strip_site(r[3][1][1]) == strip_site(c.origin_call(bb, t))
                    ctx.check(ok, "R02.2", "%s|pairs-key-with-its-own-value" % c.name, "each key is paired with the value read for that same key", c.where(bb), fmt(r))
                    pairings[f.name] = pairings.get(f.name, 0) + 1
    # the same pairing written as a loop: `for key in keys { map.insert(key, self.get(key)) }`
    for f in reads:
        if f.rec.get("impl_trait") == "std::iter::Iterator":
            continue
        for EL in elem_loops(F, f, stop=lambda n: n in read_names or n in readers):
            if EL.sink != "for" or EL.over_all(lambda c_: strip_site(c_) == ("param", 2)) is None:
                continue
            k_ = EL.over_all(lambda c_: strip_site(c_) == ("param", 2))
            okp, n_reads = True, 0
            for q in EL.bodies or []:
                rs = q.calls(read_names)
                for e in rs:
                    n_reads += 1
                    ins = [x for x in q.events if x.generic.endswith("HashMap::<K, V, S>::insert") or x.generic.endswith("::insert")]
                    okp = okp and e.args[1] == ELEM(k_) and any(x.args[1] == ELEM(k_) and strip_site(x.args[2]) == strip_site(e.res) for x in ins)
            if n_reads:
                ctx.check(okp, "R02.2", "%s|pairs-key-with-its-own-value" % f.name, "each key is paired with the value read for that same key", EL.where())
                pairings[f.name] = pairings.get(f.name, 0) + 1
    # a read API that answers several keys at once (returns a map) must show such a pairing: a value that reaches the map
    # some other way (a memo keyed by the key's *hash*, a positional zip with a separately built list) is not tied to its key
    for f in reads:
        if f.kind != "Closure" and "HashMap<" in (f.rec.get("ret") or "") and f.rec.get("reachable"):
            ctx.check(pairings.get(f.name, 0) >= 1, "R02.2", "%s|multi-read-pairs-found" % f.name,
                      "a read answering several keys pairs each key with the result of a read *of that key* made in the same step (pairing site found)", f.where())
    # iterator: index read == index removed
    for f in reads:
        if f.rec.get("impl_trait") != "std::iter::Iterator":
            continue
        # position vocabulary: which element of the key list is looked at / taken out
        def pos_of(t, kind):
            c = t["callee"]
            last = c.split("::")[-1]
            if kind == "read":
                if (c.endswith("[T]>::get") or c.endswith("Vec::<T, A>::get")) and len(t["args"]) == 2:
                    return strip_site(f.op_origin(t["args"][1]))
                if c.endswith("[T]>::first") or c.endswith("[T]>::split_first"):
                    return ("const", 0, "usize")
                if c.endswith("[T]>::last"):
                    return ("last",)
                if c in ("std::ops::Index::index",) and len(t["args"]) == 2 and "Vec<" in f.locals[t["args"][0]["place"]["l"]]["ty"] if t["args"][0].get("place") else False:
                    return strip_site(f.op_origin(t["args"][1]))
            else:
                if c.endswith("Vec::<T, A>::remove") or c.endswith("Vec::<T, A>::swap_remove"):
                    return strip_site(f.op_origin(t["args"][1]))
                if c.endswith("Vec::<T, A>::pop"):
                    return ("last",)
                if c.endswith("VecDeque::<T, A>::pop_front"):
                    return ("const", 0, "usize")
            return None
        gets = [(b, t, pos_of(t, "read")) for b, t in f.calls() if pos_of(t, "read") is not None and mentions(f.op_origin(t["args"][0]), lambda s_: s_[0] == "field" and s_[2] == "keys")]
        rems = [(b, t, pos_of(t, "remove")) for b, t in f.calls() if pos_of(t, "remove") is not None and mentions(f.op_origin(t["args"][0]), lambda s_: s_[0] == "field" and s_[2] == "keys")]
        if gets or rems:
            ok = len(gets) == 1 and len(rems) == 1 and gets[0][2] == rems[0][2] and rems[0][0] in f.reach_after(gets[0][0])
            ctx.check(ok, "R02.2", "%s|consumes-the-key-it-read" % f.name, "the iterator removes from its list exactly the position it just looked up", f.where(),
                      "read %s removed %s" % ([fmt(g[2]) for g in gets], [fmt(r_[2]) for r_ in rems]))
            # the value yielded is the one read for that key
            for p in enum_paths(f):
                r = path_return(f, p)
                if r[0] == "agg" and r[2] == "Some":
                    ctx.check(any(strip_site(r[3][0][1]) == strip_site(f.origin_call(b, t)) for b, t in f.calls() if t.get("rpath") in read_names), "R02.2",
                              "%s|yields-what-it-read" % f.name, "the iterator yields the value it just read", f.where())

    # ---- R02.9 each step of an iterator is a read of its own: whatever `next()` yields was read from the store during that
    # very call (a value resolved ahead of time - a batch, a prefetch, a memo kept in the iterator - may have been deleted or
    # superseded by a write that completed before this `next()` began)
    from sym import ipaths
    n_it = 0
    for f in reads:
        if f.rec.get("impl_trait") != "std::iter::Iterator":
            continue
        n_it += 1
        stop = lambda n: (n in read_names and n != f.name and F.fns[n].rec.get("impl_trait") != "std::iter::Iterator") or n in readers
        bad = None
        n_some = 0
        for p in ipaths(F, f, stop=stop, depth=4):
            if p.ret_variant() != ("Some",) and not (p.ret[0] == "agg" and len(p.ret) > 2 and p.ret[2] == "Some"):
                continue
            n_some += 1
            rd = [e for e in p.events if (e.callee in read_names or e.callee in readers) and not e.log]
            tied = [e for e in rd if mentions(p.ret, lambda s, e=e: strip_site(s) == strip_site(e.res))
                    or any(mentions(a[1], lambda s, e=e: strip_site(s) == strip_site(e.res)) for a in p.atoms)]
            if not tied:
                bad = "a path yields %s after %d read(s) made in this call, none of which it depends on" % (fmt(p.ret)[:120], len(rd))
                break
        ctx.check(bad is None and n_some >= 1, "R02.9", "%s|yields-a-read-made-in-this-call" % f.name,
                  "every value an iterator step yields is (a projection of) a store read made during that step", f.where(), bad or "%d yielding path(s)" % n_some)
    ctx.floor("R02.9", "iterator read variants", n_it, 1)

    # ---- R02.6 a deleted value is never returned: the hide-before-queueing rules of C04 -----------------
    import c04
    for o in ctx.own_of("c04"):
        if o["rule"] in ("R04.1", "R04.2"):
            ctx._add(o["status"], "R02.6", o["key"].split("|", 1)[1], o["desc"], o["where"], o["detail"])
        # a delete answered on the spot from what the caller thread sees (nothing hidden, nothing queued) lets a put that
        # was queued before it write afterwards: the read then returns a value whose delete had completed
        if o["rule"] == "R04.8":
            ctx._add(o["status"], "R02.8", o["key"].split("|", 1)[1], o["desc"] + " [else a put queued before the delete becomes readable after the delete completed]", o["where"], o["detail"])

    # ---- R02.7 a completed upsert's value is what readers see: the request reaches the entry unchanged (C08 R08.6/R08.9)
    import c08
    for o in ctx.own_of("c08"):
        if o["rule"] in ("R08.9",) or (o["rule"] == "R08.6" and "update-gets-request-fields" in o["key"]) or (o["rule"] == "R08.1"):
            ctx._add(o["status"], "R02.7", o["key"].split("|", 1)[1], o["desc"], o["where"], o["detail"])

    # ---- R02.4 no mutable leak -------------------------------------------------------------------------
    leaks = [n for n, f in F.fns.items() if f.rec.get("reachable") and ("RefMut<" in f.rec.get("ret", "") or "&mut " in f.rec.get("ret", "") and L.sv.split("::")[-1] in f.rec.get("ret", ""))]
    ctx.check(not leaks, "R02.4", "no-public-mutable-access", "no public function returns a mutable reference or RefMut into the store", detail=str(leaks))
    sv_short = L.sv.split("::")[-1]
    muts = []
    for n, f in F.fns.items():
        if f.kind != "Closure" and f.argc >= 1 and f.locals[1]["ty"].startswith("&mut " + L.sv) and f.stores():
            muts.append((n, f.rec.get("vis"), f.rec.get("reachable")))
    ctx.check(muts and all(not r for n, v, r in muts), "R02.4", "entry-mutators-private", "functions mutating a stored entry are not reachable from outside the crate", detail=str(muts))
    pubf = [fl["name"] for fl in F.adts[L.sv]["variants"][0]["fields"] if fl["vis"] == "pub"]
    ctx.check(not pubf, "R02.4", "entry-fields-private", "the stored entry has no public field", detail=str(pubf))

    # ---- R02.5 provenance in the worker -----------------------------------------------------------------
    import c11
    from ackmodel import AckModel
    A = AckModel(ctx)
    W = c11.find_worker(ctx, A)
    n_prov = 0
    if W is not None:
        seen_sites = set()
        for p_ in c11.worker_paths(ctx, A, W):
            for e in p_.events:
                if e.log or not (e.t["res"] == "item" and e.t.get("rlocal")) or e.callee in A.done_fns:
                    continue
                for o in e.args:
                    o = inline_ctor(F, o)
                    aggs = [s_ for s_ in subexprs(o) if s_[0] == "agg" and any(n == "key_description" for n, x in s_[3]) and any(n == "value" for n, x in s_[3])]
                    aggs += [inline_ctor(F, s_) for s_ in subexprs(o) if s_[0] == "call" and s_[1] in F.fns]
                    aggs = [a_ for a_ in aggs if a_[0] == "agg" and any(n == "key_description" for n, x in a_[3]) and any(n == "value" for n, x in a_[3])]
                    for ag in aggs:
                        d = dict(ag[3])
                        kdv = [s_ for s_ in subexprs(d["key_description"]) if s_[0] == "variant"]
                        val = peel_identity(d["value"])
                        site = (e.fn.name, e.bb, kdv[0][2] if kdv else "?")
                        if site in seen_sites:
                            continue
                        seen_sites.add(site)
                        n_prov += 1
                        ok = bool(kdv) and val[0] == "field" and strip_site(val[1]) == strip_site(kdv[0])
                        ctx.check(ok, "R02.5", "%s|key-and-value-from-same-command|%s" % (W.name, kdv[0][2] if kdv else "?"),
                                  "the key description and the value handed to the put handler are payloads of the same dequeued command", e.where())
    ctx.floor("R02.5", "put handler invocations in the worker", n_prov, 1)
    for fname in sorted(S.insert_fns):
        g = F.fn(fname)
        for h, bb, t in [(h, bb, t) for n, h in F.fns.items() for bb, t in h.calls() if t.get("rpath") == fname]:
            vals = [h.op_origin(a) for a in t["args"]]
            ok = any(v[0] == "field" and v[2] == "value" and mentions(v, lambda s: s == ("param", 1)) for v in vals)
            ctx.check(ok, "R02.5", "%s|inserts-commands-value" % h.name, "the handler inserts the value that came with the command", h.where(bb))
