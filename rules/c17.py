"""C17 — valid calls never panic or kill a background worker (structural clauses).  (DESIGN §4 C17)"""
from core import (strip_site, fmt, bool_branch, mentions, subexprs, is_call_to, root_calls, subst_params, project,
                  site_effects, dashmap_call, variant_edges, bool_branches, const_of)

LEVEL = "other"
EXPLANATION = ("Structural necessary conditions of panic-freedom: (R17.1/R17.5) every assert!-style precondition "
               "tests only values derived from the call's own arguments, the configuration or the user's callbacks - "
               "never internal cache state, which a valid caller cannot control; (R17.2) panicking time arithmetic "
               "(SystemTime + Duration) is never applied to a caller-chosen duration without a checked form; "
               "(R17.3/R17.4) no unwrap/expect of a lookup into shared state without a dominating presence test, and "
               "no direct unwrap/expect/panic in the loop of a background thread; an assert on a value that depends on "
               "internal state is discharged only by a positive lower bound that is sound under overflow (no bound through a "
               "plain `+` on a value without an upper bound); (R17.6-R17.14) zero-size std calls, unsigned subtraction on "
               "background threads, background loops that end only on disconnect, builder setters that assert like their "
               "siblings, gen_range bounds, no lock cycle through background threads, stop flags that start running; "
               "(R17.10/R17.15/R17.16) every sketch position has a byte: rows hold modulus/2 bytes, positions are taken "
               "modulo the modulus, the modulus is at least 2 for every size the builder accepts (interval lower bound "
               "traced to the builder's assert) and even (the bit-smearing chain covers the word; other spellings of the "
               "rounding are recorded as not judged). Arithmetic overflow in general, other index bounds, allocation "
               "failure and misbehaving user clocks are not decided.")
ASSUMPTIONS = ["arguments satisfy the documented preconditions", "user callbacks (weight fn, hash fn, clock) do not panic"]

SHARED_LOOKUPS = ("dashmap::DashMap::<K, V, S>::get", "dashmap::DashMap::<K, V, S>::get_mut", "dashmap::DashMap::<K, V, S>::remove",
                  "hashbrown::HashMap::<K, V, S, A>::get", "hashbrown::HashMap::<K, V, S, A>::remove",
                  "std::collections::BinaryHeap::<T, A>::pop", "std::collections::BinaryHeap::<T, A>::peek",
                  "crossbeam_channel::Receiver::<T>::recv", "crossbeam_channel::Receiver::<T>::try_recv")


def def_effects(F, name):
    eff = F.effects()
    out = {"acquire": set(), "block": set(), "user": set()}
    for nid in F.insts_of(name):
        for k in out:
            out[k] |= eff[nid][k]
    return out


def internal_sources(F, fn, e, depth=0, seen=None):
    """sub-expressions of e that read internal cache state (a value the caller cannot control)"""
    seen = seen if seen is not None else set()
    out = []
    if not isinstance(e, tuple) or not e or depth > 10:
        return out
    key = repr(strip_site(e))
    if key in seen:
        return out
    seen.add(key)
    k = e[0]
    if k in ("param", "const", "fnconst", "env", "unit"):
        return out
    if k == "field" or k == "variant":
        base = e[1]
        if base[0] == "call" and base[1] in F.fns:
            g = F.fns[base[1]]
            r = g.origin_local(0)
            members = r[1] if r[0] == "phi" else (r,)
            if all(m[0] == "agg" for m in members) and k == "field":
                # a struct returned by a local function: follow the field to what was put into it
                for m in members:
                    v = dict(m[3]).get(e[2])
                    if v is not None:
                        out += internal_sources(F, fn, subst_params(v, list(base[2])), depth + 1, seen)
                return out
        return internal_sources(F, fn, base, depth + 1, seen)
    if k == "call":
        callee = e[1]
        if callee in F.fns:
            eff = def_effects(F, callee)
            if eff["acquire"]:
                return [e]
            g = F.fns[callee]
            r = g.origin_local(0)
            out += internal_sources(F, fn, subst_params(r, list(e[2])), depth + 1, seen) if not mentions(r, lambda s: s[0] in ("var", "unknown", "built")) else []
            for a in e[2]:
                out += internal_sources(F, fn, a, depth + 1, seen)
            return out
        if any(callee.startswith(p) for p in SHARED_LOOKUPS) or callee.startswith("dashmap::") or "lock_api::" in callee:
            return [e]
        for a in e[2]:
            out += internal_sources(F, fn, a, depth + 1, seen)
        return out
    if k == "agg":
        if e[1] in F.fns:          # closure: its captures and what its body reads
            c = F.fns[e[1]]
            for n, x in e[3]:
                out += internal_sources(F, fn, x, depth + 1, seen)
            for b, t in c.calls():
                if t["res"] == "item" and t.get("rlocal") and def_effects(F, t["rpath"])["acquire"]:
                    out.append(("call", t["rpath"], (), None))
            return out
        for n, x in e[3]:
            out += internal_sources(F, fn, x, depth + 1, seen)
        return out
    for x in e[1:]:
        if isinstance(x, tuple):
            if x and isinstance(x[0], str):
                out += internal_sources(F, fn, x, depth + 1, seen)
            else:
                for y in x:
                    if isinstance(y, tuple):
                        out += internal_sources(F, fn, y, depth + 1, seen)
    return out


def guarding_branch(fn, pb):
    """the bool branch one of whose edges leads only to the panic block pb: (block, cond expr, truth value that panics)"""
    pm = fn.preds_map()
    cur = pb
    for _ in range(40):
        ps = [p for p in pm.get(cur, []) if p in fn.live_blocks()]
        if len(ps) != 1:
            return None
        p = ps[0]
        br = bool_branch(fn, p)
        if br:
            expr, tt, ft = br
            return p, expr, (tt == cur)
        if fn.term(p)["k"] == "switch":
            return None
        cur = p
    return None


def run(ctx):
    F = ctx.facts
    # ---- R17.1 / R17.5 asserts test arguments only -------------------------------------------------
    n_assert = 0
    for name, f in F.fns.items():
        for b in sorted(f.live_blocks()):
            t = f.term(b)
            if t["k"] != "call" or "panicking::" not in t["callee"] or "assert" not in t.get("mac", "") or "log::" in t.get("mac", ""):
                continue
            if t.get("target") is not None:
                continue
            n_assert += 1
            ctx.touch(f)
            g = guarding_branch(f, b)
            if not g:
                ctx.bad("R17.1", "%s|assert@%s|condition" % (name, n_assert), "the asserted condition could not be recovered", f.where(b))
                continue
            gb, cond, panics_when = g
            srcs = internal_sources(F, f, cond)
            if srcs and (provably_positive(F, f, cond) or provably_positive_sym(F, f, gb)):
                ctx.ok("R17.1", "%s|assert-provably-positive-%d" % (name, n_assert), "the asserted value depends on internal state but is bounded below by a positive constant on every such origin (sign analysis): the assert cannot fire", f.where(b), fmt(cond)[:140])
                continue
            import hashlib
            key = "%s|assert-%s" % (name, hashlib.sha1(repr(strip_site(cond)).encode()).hexdigest()[:8])
            ctx.check(not srcs, "R17.1", key,
                      "a precondition assert must test only the call's arguments, the configuration or user-callback results - never internal cache state, which no valid argument can control",
                      f.where(b), "condition %s reads %s (no positive lower bound established: a bound is not taken through a plain `+`/`-` that may overflow on a value without an upper bound - a recorded weight can be i64::MAX -, it is through saturating_add / max)" % (fmt(cond)[:140], "; ".join(sorted({fmt(s)[:80] for s in srcs}))) if srcs else fmt(cond)[:140])
    ctx.floor("R17.5", "assert!-style preconditions analysed", n_assert, 12)

    # ---- R17.11 builder preconditions (sibling agreement): every setter of the configuration builder that stores a plain
    # integer argument first asserts something about that very argument (`> 0`, `> 1`, power of two).  These asserts are
    # what makes `% len`, `x / n`, `vec![..; n]` on those values safe deep inside reader and worker code; a setter that
    # stores its integer unchecked is the deviant one.
    INTS = ("usize", "u64", "u32", "i64", "u16", "u8", "i32")
    n_set = 0
    for name, f in sorted(F.fns.items()):
        st_ = (f.rec.get("self_ty") or "")
        if f.kind == "Closure" or not st_.split("<")[0].endswith("ConfigBuilder") or not f.rec.get("reachable") or f.argc < 2:
            continue
        ints = [i for i in range(2, f.argc + 1) if f.locals[i]["ty"] in INTS]
        if not ints:
            continue
        stored = []
        for b in sorted(f.live_blocks()):
            for st in f.blocks[b]["stmts"]:
                if st["k"] == "assign":
                    e = f.origin_rvalue(st["rv"])
                    for i in ints:
                        if mentions(e, lambda s_, i=i: s_ == ("param", i)) and (st["place"]["p"] or st["rv"]["k"] == "agg"):
                            stored.append(i)
        asserted = set()
        for b in sorted(f.live_blocks()):
            t = f.term(b)
            if t["k"] == "call" and "panicking::" in t["callee"] and t.get("target") is None:
                g = guarding_branch(f, b)
                if g:
                    for i in ints:
                        if mentions(g[1], lambda s_, i=i: s_ == ("param", i)):
                            asserted.add(i)
        # (an `ensure(cond, error)` helper that panics when its argument is false counts as the assert it wraps)
        for b, t in f.calls():
            h = F.fns.get(t.get("rpath") or "")
            if h is not None and t["res"] == "item" and any("panicking::" in t2["callee"] for b2, t2 in h.calls()):
                for a_ in t["args"]:
                    e = f.op_origin(a_)
                    for i in ints:
                        if mentions(e, lambda s_, i=i: s_ == ("param", i)):
                            asserted.add(i)
        for i in sorted(set(stored)):
            n_set += 1
            ctx.check(i in asserted, "R17.11", "%s|integer-setting-asserted|%s" % (name, f.locals[i].get("name") or i),
                      "a builder method that stores an integer setting asserts a precondition on it first (like its siblings): zero sizes would panic readers (`% 0`), the worker or a background thread later", f.where())
    ctx.floor("R17.11", "integer settings stored by the configuration builder", n_set, 4)

    # ---- R17.2 panicking time arithmetic --------------------------------------------------------------
    n_time = 0
    for name, f in F.fns.items():
        for b, t in f.calls():
            c = t.get("rpath") or t["callee"]
            is_add = t["callee"] in ("std::ops::Add::add", "std::ops::Sub::sub", "std::ops::AddAssign::add_assign", "std::ops::SubAssign::sub_assign") and \
                ("std::time::SystemTime" in c or "std::time::Instant" in c or "std::time::Duration" in c)
            if not is_add:
                continue
            n_time += 1
            ctx.touch(f)
            ops = [f.op_origin(a) for a in t["args"]]
            risky = [o for o in ops if not (o[0] == "const") and not is_call_to(o, "Clock::now", "SystemTime::now")]
            ctx.check(not risky, "R17.2", "%s|unchecked-time-arithmetic" % name,
                      "`SystemTime + Duration` panics on overflow: it must not be applied to a caller-chosen duration (any time-to-live is a valid argument); use checked_add / saturate",
                      f.where(b), "operands: %s" % ", ".join(fmt(o) for o in ops))
    ctx.note("R17.2: %d unchecked time-arithmetic site(s) analysed" % n_time)

    # ---- R17.3 unwrap/expect of shared-state lookups ----------------------------------------------------
    n_unwrap = 0
    listed = []
    for name, f in F.fns.items():
        for b, t in f.calls():
            c = t["callee"]
            if not (c.endswith("::unwrap") or c.endswith("::expect")) or not (c.startswith("std::option::Option") or c.startswith("std::result::Result")):
                continue
            n_unwrap += 1
            recv = f.op_origin(t["args"][0])
            shared = [s for s in subexprs(recv) if s[0] == "call" and (any(s[1].startswith(p) for p in SHARED_LOOKUPS) or (s[1] in F.fns and def_effects(F, s[1])["acquire"] and F.fns[s[1]].rec.get("ret", "").startswith("std::option::Option")))]
            if not shared:
                listed.append("%s %s" % (f.where(b), fmt(recv)[:60]))
                continue
            # dominated by a presence test of the same value?
            guarded = False
            for bb, expr, tt, ft in bool_branches(f):
                if expr[0] == "call" and expr[1].endswith(("is_some", "is_ok")) and strip_site(expr[2][0]) == strip_site(recv) and f.edge_dominates((bb, tt), b):
                    guarded = True
                if expr[0] == "call" and expr[1].endswith(("is_none", "is_err")) and strip_site(expr[2][0]) == strip_site(recv) and f.edge_dominates((bb, ft), b):
                    guarded = True
            ctx.check(guarded, "R17.3", "%s|unwrap-of-shared-lookup" % name,
                      "unwrap/expect of a lookup into shared state (which another thread may empty) must be dominated by a presence test of that same value",
                      f.where(b), fmt(recv)[:160])
    ctx.note("R17.3: %d unwrap/expect sites; not on shared lookups (listed, not alarmed): %s" % (n_unwrap, listed[:12]))
    ctx.floor("R17.3", "unwrap/expect sites surveyed", n_unwrap, 3)

    # ---- R17.12 `gen_range(a..b)` panics on an empty range: on reader threads (buffer choice) the bounds must be 0 and a size
    # that the builder asserted positive, taken as it is - not a difference, quotient or remainder of it, which can be 0
    n_gr = 0
    for name, f in sorted(F.fns.items()):
        for b, t in f.calls():
            if not t["callee"].endswith("Rng::gen_range") or len(t["args"]) < 2:
                continue
            n_gr += 1
            r = f.op_origin(t["args"][1])
            d = dict(r[3]) if r[0] == "agg" and r[1].endswith("Range") else {}
            lo, hi = d.get("start"), d.get("end")
            ok = lo is not None and hi is not None and lo[0] == "const" and lo[1] == 0 and \
                ((hi[0] == "const" and isinstance(hi[1], int) and hi[1] > 0) or
                 not mentions(hi, lambda s_: s_[0] in ("binop", "unop") or (s_[0] == "call" and not s_[1].endswith(("::len", "::clone")))))
            ctx.check(ok, "R17.12", "%s|gen-range-non-empty" % name,
                      "a random index is drawn from 0..n with n a positive constant or a configured size used as it is (asserted > 0 by the builder, R17.11)", f.where(b), fmt(r)[:120])
    ctx.note("R17.12: %d gen_range call(s)" % n_gr)

    # ---- R17.6 std APIs that panic on a zero size/step need a non-zero argument ------------------------------
    ZERO_PANICS = ("::chunks", "::chunks_exact", "::chunks_mut", "::chunks_exact_mut", "::rchunks", "::rchunks_mut", "::windows", "::step_by")
    n_zero = 0
    for name, f in F.fns.items():
        for b, t in f.calls():
            cl = t["callee"]
            if not (cl.startswith("core::slice::") or cl.startswith("std::iter::Iterator::step_by") or "<impl [T]>" in cl) or not cl.endswith(tuple(x.lstrip(":") for x in ZERO_PANICS)):
                continue
            n_zero += 1
            size = f.op_origin(t["args"][1])
            okz = size[0] == "const" and isinstance(size[1], int) and size[1] > 0
            if not okz:
                # dominated by a test that the size is > 0 / != 0 ?
                for bb, expr, tt, ft in bool_branches(f):
                    if expr[0] == "binop" and expr[1] == "Lt" and expr[2] == ("const", 0, "usize") and strip_site(expr[3]) == strip_site(size) and f.edge_dominates((bb, tt), b):
                        okz = True
                    if expr[0] == "binop" and expr[1] in ("Eq",) and ("const", 0, "usize") in (expr[2], expr[3]) and strip_site(size) in (strip_site(expr[2]), strip_site(expr[3])) and f.edge_dominates((bb, ft), b):
                        okz = True
            ctx.check(okz, "R17.6", "%s|zero-size-%s" % (name, cl.split("::")[-1]),
                      "%s panics when its size argument is 0: the argument must be a positive constant or be tested non-zero first (e.g. len / 2 is 0 for a one-element buffer, which a valid configuration produces)" % cl.split("::")[-1],
                      f.where(b), "size = %s" % fmt(size))
    ctx.note("R17.6: %d zero-panicking std call(s) analysed" % n_zero)

    # ---- R17.7 unsigned subtraction on a background thread ------------------------------------------------
    # `a - b` on an unsigned type panics (debug) or wraps into an out-of-range index (release) when b > a. In code
    # that runs on the worker / consumer / sweeper such a subtraction needs a reason: a dominating test that
    # b <= a, or a symbolic bound T with b <= T <= a (b = x % T, b drawn from 0..T, b clamped to T; a = y + T).
    bg = set()
    for cdef in F.spawn_closures():
        for nid in F.insts_of(cdef):
            bg |= {F.def_of(n) for n in F.inst_reach([nid])}
    n_usub = 0
    for name in sorted(bg):
        f = F.fns.get(name)
        if f is None:
            continue
        for b in sorted(f.live_blocks()):
            for i, st in enumerate(f.blocks[b]["stmts"]):
                if st["k"] != "assign" or st["rv"]["k"] != "binop" or st["rv"]["op"] not in ("SubWithOverflow", "Sub", "SubUnchecked"):
                    continue
                lty = f.locals[st["place"]["l"]]["ty"]
                if not lty.lstrip("(").startswith(("usize", "u64", "u32", "u16", "u8", "u128")) or st["place"]["p"]:
                    continue
                A, B = f.op_origin(st["rv"]["a"]), f.op_origin(st["rv"]["b"])
                n_usub += 1
                ctx.touch(f)
                why = unsigned_sub_safe(F, f, b, A, B)
                ctx.check(bool(why), "R17.7", "%s|unsigned-sub|%s" % (name, short_cond(("binop", "Sub", A, B))),
                          "an unsigned subtraction executed on a background thread cannot underflow: " + (why or "no dominating `b <= a` test and no common symbolic bound between the operands was found"),
                          f.where(b, i), "%s - %s" % (fmt(A)[:80], fmt(B)[:80]))
    ctx.note("R17.7: %d unsigned subtraction(s) in %d functions reachable from background threads" % (n_usub, len(bg)))

    # ---- R17.9 a background worker ends only when told to: a loop that receives with a deadline or without blocking
    # (`recv_timeout`, `recv_deadline`, `try_recv`) gets `Err` for "nothing yet" as well as for "disconnected"; leaving the
    # thread on an `Err` whose reason was not examined ends the worker after the first quiet period
    from sym import ipaths as ipaths_
    spawn_ = F.spawn_closures()
    n_nb = 0
    NONBLOCK = ("Receiver::<T>::recv_timeout", "Receiver::<T>::recv_deadline", "Receiver::<T>::try_recv")
    for cdef in sorted(spawn_):
        c = F.fn(cdef)
        if c is None:
            continue
        rets = set(c.return_blocks())
        for b, t in c.calls():
            if not t["callee"].endswith(NONBLOCK) or b not in c.reach_after(b):
                continue            # only receives of the thread's loop
            n_nb += 1
            bad = []
            for p in ipaths_(F, c, stop=lambda n_: False, depth=1, start=b, ends=rets | {b}):
                re_ = [e for e in p.events if e.fn is c and e.bb == b]
                if not re_ or p.variant_of(re_[0].res) != ("Err",) or not (p.blocks and p.blocks[-1] in rets):
                    continue
                why_ = ("field", ("variant", re_[0].res, "Err"), "0")
                if not any(a[0] == "enum" and strip_site(a[1]) == strip_site(why_) for a in p.atoms):
                    bad.append("the thread ends on an Err of %s whose reason (nothing yet / disconnected) was not examined (%s)" % (t["callee"].split("::")[-1], p.show()))
            ctx.check(not bad, "R17.9", "%s|worker-ends-only-on-disconnect" % cdef,
                      "a background loop that receives without blocking forever leaves only when the channel is disconnected (or on its shutdown signal), not when nothing arrived in time", c.where(b), "; ".join(sorted(set(bad))[:2]))
    ctx.note("R17.9: %d non-blocking / timed receive(s) in background loops" % n_nb)

    # ---- R17.10 (= C14 R14.9) no counter position is out of bounds: an index panic there kills the access consumer
    for o in ctx.own_of("c14"):
        if o["rule"] in ("R14.9",) or (o["rule"] == "R14.5" and "same-cells" in o["key"]):
            ctx._add(o["status"], "R17.10", o["key"], o["desc"] + " [an out-of-range position panics the consumer thread]", o["where"], o["detail"])

    # ---- R17.15 the sketch has a counter for every position, for *every* size the builder accepts.  R14.9 ties the row length
    # to modulus/2 and R14.5 the position to `.. % modulus`; what is left is a number: the modulus must be at least 2, else
    # the rows are empty and the first estimate / increment indexes out of bounds on the worker (consumer) thread.  Decided by
    # a lower-bound (interval) evaluation of the modulus expression on the symbolic paths of the constructing function, the
    # size parameter bounded below by what the configuration builder asserts (traced through the constructors that pass it
    # on); monotone operators only (`| >> + - max / next_power_of_two`), anything else is "unknown" and reported.
    sketch_bounds(ctx)

    # ---- R17.14 a background loop's stop flag starts in the "keep running" state: the thread leaves its loop when the flag it
    # polls reads a certain value; the constructor of the type owning the flag must initialise it to the other value, or the
    # worker ends by itself after its first round
    from core import closure_captures, peel_identity
    n_flag = 0
    for cdef in sorted(spawn_):
        c = F.fn(cdef)
        if c is None:
            continue
        rets = set(c.return_blocks())
        for b, t in c.calls():
            if not t["callee"].endswith("Atomic::<bool>::load"):
                continue
            recv = c.op_origin(t["args"][0])
            cap = [x for x in subexprs(recv) if x[0] == "field" and x[1] == ("env",)]
            cc = closure_captures(F, cdef)
            if not cap or not cc or cap[0][2] not in cc[1]:
                continue
            src = cc[1][cap[0][2]]
            flds = [x for x in subexprs(src) if x[0] == "field" and x[1] == ("param", 1)]
            owner = (cc[0].rec.get("self_ty") or "").split("<")[0]
            if not flds or not owner:
                continue
            fname = flds[0][2]
            exit_when = set()
            lres = strip_site(c.origin_call(b, t))
            for p in ipaths_(F, c, stop=lambda n_: False, depth=1, start=b, ends=rets | {b}):
                # (leaving in the same round: a path that goes back to receive and leaves later for another reason is not it)
                if p.blocks and p.blocks[-1] in rets and not any("Receiver::<T>::" in e.generic for e in p.events if e.seq > 1):
                    for a in p.atoms:
                        if a[0] == "bool" and strip_site(a[1]) == lres:
                            exit_when.add(a[2])
            if len(exit_when) != 1:
                continue
            ew = exit_when.pop()
            inits = []
            for n2, g in F.fns.items():
                for bb in sorted(g.live_blocks()):
                    for st in g.blocks[bb]["stmts"]:
                        if st["k"] == "assign" and st["rv"]["k"] == "agg" and st["rv"].get("adt") == owner:
                            v = dict(g.origin_rvalue(st["rv"])[3]).get(fname)
                            if v is not None:
                                cs = [x[2][0] for x in subexprs(v) if x[0] == "call" and x[1].endswith("Atomic::<bool>::new") and x[2] and x[2][0][0] == "const"]
                                inits += [bool(x[1]) for x in cs]
            if not inits:
                continue
            n_flag += 1
            ctx.check(all(i != ew for i in inits), "R17.14", "%s|stop-flag-starts-running|%s" % (cdef, fname),
                      "the flag a background loop polls is initialised to the value that keeps the loop running (the loop leaves when it reads %s)" % ew, c.where(b), "initial value(s) %s" % inits)
    ctx.note("R17.14: %d polled stop flag(s) traced to their initial value" % n_flag)

    # ---- R17.13 a background worker that waits forever is as lost as one that panicked: no lock-order cycle (or same-class
    # nested acquisition, e.g. a read lock taken again while held - fatal with a writer waiting) involves code a background
    # thread runs
    import c18
    bad_cycle, bad_self = c18.cycle_through(ctx, sorted(F.spawn_closures()))
    ctx.check(bad_cycle is None and not bad_self, "R17.13", "no-lock-cycle-through-background-threads",
              "no lock-order cycle or nested same-class acquisition involves code reachable from the command worker, the access consumer or the sweeper",
              detail=("cycle %s" % " -> ".join(bad_cycle) if bad_cycle else "") + (" self %s" % bad_self[:2] if bad_self else ""))

    # ---- R17.8 (= C08 R08.7) the upsert's "does the key exist" agrees with what reads report -------------------------
    # put_or_update asserts that a request without a value only ever *updates*: whether it updates is decided by the
    # in-place update's liveness test.  If that test disagrees with the read path (a key `get` still returns is treated as
    # absent), a well-formed value-less upsert of a readable key panics the caller.
    for o in ctx.own_of("c08"):
        if o["rule"] == "R08.7":
            ctx._add(o["status"], "R17.8", o["key"].split("|", 1)[1], o["desc"] + " [otherwise the value-missing assert of the put branch fires for a key the caller can read]", o["where"], o["detail"])

    # ---- R17.4 background loops --------------------------------------------------------------------------
    spawn = F.spawn_closures()
    ctx.floor("R17.4", "background thread closures", len(spawn), 3)
    for cdef in sorted(spawn):
        c = F.fn(cdef)
        ctx.touch(c)
        direct = []
        for b, t in c.calls():
            cl = t["callee"]
            if (cl.endswith("::unwrap") or cl.endswith("::expect")) and (cl.startswith("std::option::Option") or cl.startswith("std::result::Result")):
                direct.append(c.where(b))
            if "panicking::" in cl and "log::" not in t.get("mac", "") and "unreachable" not in cl:
                direct.append(c.where(b))
        ctx.check(not direct, "R17.4", "%s|no-direct-panic-in-thread-loop" % cdef,
                  "the body of a background thread contains no direct unwrap/expect/panic (a panic would silently end command processing, sweeping or access counting)", c.where(), str(direct))


def _peel(e):
    while isinstance(e, tuple) and e and e[0] == "cast":
        e = e[1]
    return strip_site(e)


def lower_terms(F, f, e, depth=0):
    """expressions T with e >= T (unsigned, the additions themselves being overflow-checked)"""
    e = _peel(e)
    out = {e}
    if depth > 4:
        return out
    if e[0] == "const":
        return out
    if e[0] == "binop" and e[1] in ("Add", "AddWithOverflow"):
        out |= lower_terms(F, f, e[2], depth + 1) | lower_terms(F, f, e[3], depth + 1)
    if e[0] == "call" and e[1].split("::")[-1] == "max" and len(e[2]) == 2:
        out |= lower_terms(F, f, e[2][0], depth + 1) | lower_terms(F, f, e[2][1], depth + 1)
    if e[0] == "call" and e[1].split("::")[-1] == "clamp" and len(e[2]) == 3:
        out |= lower_terms(F, f, e[2][1], depth + 1)
    return out


def upper_terms(F, f, e, depth=0):
    """(T, strict) with e <= T (or e < T)"""
    e = _peel(e)
    out = {(e, False)}
    if depth > 4:
        return out
    if e[0] == "binop" and e[1] == "Rem":
        out |= {(t, True) for t, s in upper_terms(F, f, e[3], depth + 1)}
    if e[0] == "binop" and e[1] == "BitAnd":
        for z in (e[2], e[3]):
            out |= upper_terms(F, f, z, depth + 1)
    if e[0] == "call" and e[1].split("::")[-1] == "min" and len(e[2]) == 2:
        out |= upper_terms(F, f, e[2][0], depth + 1) | upper_terms(F, f, e[2][1], depth + 1)
    if e[0] == "call" and e[1].split("::")[-1] == "clamp" and len(e[2]) == 3:
        out |= upper_terms(F, f, e[2][2], depth + 1)
    # an element drawn from a range start..end
    if e[0] == "field" and e[1][0] == "variant" and e[1][2] == "Some" and is_call_to(e[1][1], "Iterator::next", "next"):
        it = e[1][1][2][0] if e[1][1][2] else None
        for s_ in ([it] + list(subexprs(it)) if it else []):
            if isinstance(s_, tuple) and s_ and s_[0] == "agg" and s_[1].endswith("Range"):
                end = dict(s_[3]).get("end")
                if end is not None:
                    out |= {(t, True) for t, s in upper_terms(F, f, end, depth + 1)}
    # a by-value capture of a closure: bounded like the value captured in the parent
    if e[0] == "field" and e[1] in (("env",), ("upvar",)) and f.kind == "Closure":
        from core import closure_captures
        cc = closure_captures(F, f.name)
        if cc and e[2] in cc[1]:
            out |= {(t, s) for t, s in upper_terms(F, cc[0], cc[1][e[2]], depth + 1) if t[0] == "const"}
    return out


def unsigned_sub_safe(F, f, bb, A, B):
    a, b = _peel(A), _peel(B)
    if b[0] == "const" and b[1] == 0:
        return "subtracting 0"
    if a[0] == "const" and b[0] == "const" and isinstance(a[1], int) and isinstance(b[1], int) and a[1] >= b[1]:
        return "constants"
    # dominating comparison b <= a / b < a (norm_binop keeps only Lt / Le)
    for gb, expr, tt, ft in bool_branches(f):
        e = expr
        if e[0] == "binop" and e[1] in ("Lt", "Le"):
            x, y = _peel(e[2]), _peel(e[3])
            if x == b and y == a and f.edge_dominates((gb, tt), bb):
                return "dominated by the test %s" % fmt(e)[:60]
            if e[1] == "Lt" and x == a and y == b and f.edge_dominates((gb, ft), bb):
                return "dominated by the failed test %s" % fmt(e)[:60]
    lo = lower_terms(F, f, a)
    for t, strict in upper_terms(F, f, b):
        if t in lo:
            return "%s is a common bound: subtrahend <%s it <= minuend" % (fmt(t)[:50], "" if strict else "=")
    # constant subtrahend against a provably positive minuend
    if b[0] == "const" and isinstance(b[1], int):
        for t in lo:
            if t[0] == "const" and isinstance(t[1], int) and t[1] >= b[1]:
                return "minuend >= constant %d" % t[1]
    return None


def short_cond(e):
    s = fmt(strip_site(e))
    import re
    s = re.sub(r"\s+", "", s)
    return s[:70]


def lower_bound(F, fn, e, depth=0):
    """a constant lower bound of an integer expression, or None (tiny sign/interval analysis)"""
    from core import closure_captures
    if not isinstance(e, tuple) or not e or depth > 12:
        return None
    k = e[0]
    if k == "const" and isinstance(e[1], int):
        return e[1]
    if k == "cast":
        return lower_bound(F, fn, e[1], depth + 1)
    if k == "binop" and e[1] == "Add":
        a, b = lower_bound(F, fn, e[2], depth + 1), lower_bound(F, fn, e[3], depth + 1)
        # a bound through `+` holds only if the sum cannot overflow (it wraps in a release build and panics in a debug build):
        # both operands need a constant upper bound.  A recorded weight has none below i64::MAX - `recorded + 24` is *not*
        # bounded below by 25; `recorded.saturating_add(24)` is.
        if upper_const(F, fn, e[2]) is None or upper_const(F, fn, e[3]) is None:
            return None
        return a + b if a is not None and b is not None else None
    if k == "call" and e[1].endswith("::saturating_add") and len(e[2]) == 2:
        a, b = lower_bound(F, fn, e[2][0], depth + 1), lower_bound(F, fn, e[2][1], depth + 1)
        return a + b if a is not None and b is not None and b >= 0 and a >= 0 else None
    if k == "binop" and e[1] == "Sub":
        a, b = lower_bound(F, fn, e[2], depth + 1), e[3]
        if a is not None and b[0] == "const" and isinstance(b[1], int):
            return a - b[1]
        ub = upper_const(F, fn, b)
        return a - ub if a is not None and ub is not None else None
    if k == "call" and (e[1].endswith("cmp::Ord::max") or e[1].endswith("cmp::max")) and len(e[2]) == 2:
        bs = [lower_bound(F, fn, x, depth + 1) for x in e[2]]
        ks = [x for x in bs if x is not None]
        return max(ks) if ks else None
    if k == "call" and e[1].endswith("Option::<T>::unwrap_or") and len(e[2]) == 2:
        d = lower_bound(F, fn, e[2][1], depth + 1)
        src = e[2][0]
        # a weight read from the weight map is >= 1 (weights are asserted positive at the API and only recorded weights are stored)
        if src[0] == "call" and src[1] in F.fns and F.fns[src[1]].rec.get("ret", "") == "std::option::Option<i64>" and "KW" in def_effects(F, src[1])["acquire"]:
            return min(1, d) if d is not None else None
        return None
    if k == "field" and e[2] == "0" and e[1][0] == "variant" and e[1][2] == "Some":
        src = e[1][1]       # the Some-payload of a weight read from the weight map (same invariant as above)
        if src[0] == "call" and src[1] in F.fns and F.fns[src[1]].rec.get("ret", "") == "std::option::Option<i64>" and "KW" in def_effects(F, src[1])["acquire"]:
            return 1
        return None
    if k == "call" and e[1] in F.fns and not e[2]:
        g = F.fns[e[1]]           # argument-less local function (e.g. a size computed from constants)
        return lower_bound(F, g, g.origin_local(0), depth + 1)
    if k == "field" and e[1] == ("env",):
        cc = closure_captures(F, fn.name)
        if cc and e[2] in cc[1]:
            return lower_bound(F, cc[0], cc[1][e[2]], depth + 1)
    if k == "phi":
        bs = [lower_bound(F, fn, x, depth + 1) for x in e[1]]
        return min(bs) if all(x is not None for x in bs) else None
    return None


def upper_const(F, fn, e):
    """value of an expression that is a compile-time constant (sums of constants, casts)"""
    if e[0] == "const" and isinstance(e[1], int):
        return e[1]
    if e[0] == "cast":
        return upper_const(F, fn, e[1])
    if e[0] == "binop" and e[1] == "Add":
        a, b = upper_const(F, fn, e[2]), upper_const(F, fn, e[3])
        return a + b if a is not None and b is not None else None
    if e[0] == "call" and e[1] in F.fns and not e[2]:
        g = F.fns[e[1]]
        return upper_const(F, g, g.origin_local(0))
    return None


def provably_positive_sym(F, fn, gb):
    """path-sensitive form: on every symbolic path of fn (closures and combinators inlined, state-reading functions
    opaque) that passes the assert at block gb, the asserted value is free of internal state or has a positive
    constant lower bound"""
    from sym import ipaths
    own = (fn.rec.get("self_ty") or "").split("<")[0]
    # the function's own type's helpers are inlined even if they touch state; other components stay opaque state readers
    paths = ipaths(F, fn, stop=lambda n: bool(def_effects(F, n)["acquire"]) and not (own and n in F.fns and (F.fns[n].rec.get("self_ty") or "").split("<")[0] == own and not F.fns[n].rec.get("reachable")),
                   depth=3, model_unwrap=True)
    vals = []
    for p in paths:
        for a in p.atoms:
            if a[0] == "bool" and a[3] == (fn.name, gb) and a[2] and a[1][0] == "binop" and a[1][1] == "Lt" and a[1][2][0] == "const" and a[1][2][1] == 0:
                vals.append((a[1][3], p, a[4]))
    if not vals:
        return False
    for v, p, seq in vals:
        if internal_sources(F, fn, v):
            lb = lower_bound(F, fn, v)
            # the path itself may have clamped the value before asserting it: `if v < 1 { 1 } else { v }`
            for b in p.atoms:
                if b[0] != "bool" or b[4] >= seq or b[1][0] != "binop":
                    continue
                op, x, y = b[1][1], b[1][2], b[1][3]
                got = None
                if strip_site(x) == strip_site(v) and y[0] == "const" and isinstance(y[1], int):
                    got = y[1] if (op == "Lt" and not b[2]) else (y[1] + 1 if (op == "Le" and not b[2]) else None)      # !(v < c) / !(v <= c)
                elif strip_site(y) == strip_site(v) and x[0] == "const" and isinstance(x[1], int):
                    got = x[1] + 1 if (op == "Lt" and b[2]) else (x[1] if (op == "Le" and b[2]) else None)              # c < v / c <= v
                if got is not None:
                    lb = got if lb is None else max(lb, got)
            if lb is None or lb < 1:
                return False
    return True


def provably_positive(F, fn, cond):
    """cond is `0 < V`; every origin of V is either free of internal state (argument / user-callback derived) or an
    Option::or_else fallback closure returning Some(E) with a positive lower bound for E"""
    if not (cond[0] == "binop" and cond[1] == "Lt" and cond[2][0] == "const" and cond[2][1] == 0):
        return False
    members = cond[3][1] if cond[3][0] == "phi" else (cond[3],)
    for m in members:
        if not internal_sources(F, fn, m):
            continue
        x = m
        if x[0] == "field" and x[1][0] == "variant" and x[1][2] == "Some":
            x = x[1][1]
        if not (x[0] == "call" and x[1].endswith("Option::<T>::or_else") and len(x[2]) == 2 and x[2][1][0] == "agg" and x[2][1][1] in F.fns):
            return False
        if internal_sources(F, fn, x[2][0]):
            return False
        c = F.fns[x[2][1][1]]
        r = c.origin_local(0)
        if not (r[0] == "agg" and r[2] == "Some"):
            return False
        lb = lower_bound(F, c, r[3][0][1])
        if lb is None or lb < 1:
            return False
    return True


# ---- R17.15 -----------------------------------------------------------------------------------------------------------
UINTS = ("usize", "u64", "u32", "u16", "u8", "u128")


def assert_lb(F, f, i):
    """lower bound that asserts inside f establish for its integer parameter i (`assert!(p > c)`, `assert!(p >= c)`)"""
    best = None
    for b in sorted(f.live_blocks()):
        t = f.term(b)
        if not (t["k"] == "call" and "panicking::" in t["callee"] and t.get("target") is None):
            continue
        g = guarding_branch(f, b)
        if not g:
            continue
        _, e, panics_when = g
        neg = False
        while e[0] == "unop" and e[1] == "Not":
            e, neg = e[2], not neg
        holds = (not panics_when) != neg          # truth of `e` on the surviving edge
        if e[0] != "binop" or e[1] not in ("Lt", "Le", "Gt", "Ge"):
            continue
        op, x, y = e[1], peel_casts(e[2]), peel_casts(e[3])
        if op in ("Gt", "Ge"):
            op, x, y = {"Gt": "Lt", "Ge": "Le"}[op], y, x          # x < y / x <= y
        if not holds:
            op, x, y = {"Lt": "Le", "Le": "Lt"}[op], y, x          # !(x < y) = y <= x
        if y == ("param", i) and x[0] == "const" and isinstance(x[1], int):
            got = x[1] + 1 if op == "Lt" else x[1]
            best = got if best is None else max(best, got)
    return best


def peel_casts(e):
    e = strip_site(e)
    while isinstance(e, tuple) and e and e[0] == "cast":
        e = e[1]
    return e


def param_lb(F, f, i, depth=0, seen=None):
    """lower bound of integer parameter i of f over all its call sites in the crate (and its own asserts)"""
    seen = seen or set()
    ty = f.locals[i]["ty"] if i < len(f.locals) else ""
    floor_ = 0 if ty in UINTS else None
    own = assert_lb(F, f, i)
    if own is not None:
        return own
    if (f.name, i) in seen or depth > 8:
        return floor_
    seen = seen | {(f.name, i)}
    sites = [(g, t) for g in F.fns.values() for b, t in g.calls() if t.get("rpath") == f.name and len(t["args"]) >= i]
    if not sites or f.rec.get("reachable"):
        # callable from outside the crate with any value of its type (only its own asserts bound it)
        if f.rec.get("reachable"):
            return floor_
    bs = []
    for g, t in sites:
        bs.append(expr_lb(F, g, g.op_origin(t["args"][i - 1]), depth + 1, seen))
    if not bs or any(b is None for b in bs):
        return floor_
    return min(bs)


def field_lb(F, adt, fld, depth, seen):
    """lower bound of a struct field over every construction of that struct in the crate"""
    if (adt, fld) in seen or depth > 8:
        return None
    seen = seen | {(adt, fld)}
    bs = []
    for g in F.fns.values():
        for b in sorted(g.live_blocks()):
            for st in g.blocks[b]["stmts"]:
                if st["k"] == "assign" and st["rv"]["k"] == "agg" and st["rv"].get("adt") == adt:
                    e = dict(g.origin_rvalue(st["rv"])[3]).get(fld)
                    bs.append(expr_lb(F, g, e, depth + 1, seen) if e is not None else None)
    if not bs or any(b is None for b in bs):
        return None
    return min(bs)


def expr_lb(F, f, e, depth=0, seen=frozenset(), penv=None):
    """constant lower bound of an unsigned integer expression (None = unknown); penv: assumed bounds of f's parameters"""
    e = strip_site(e) if isinstance(e, tuple) else e
    if not isinstance(e, tuple) or not e or depth > 24:
        return None
    k = e[0]
    if penv is not None and k == "param" and e[1] in penv:
        return penv[e[1]]
    if k == "const" and isinstance(e[1], int):
        return e[1]
    if k == "cast":
        return expr_lb(F, f, e[1], depth + 1, seen, penv)
    if k == "param":
        return param_lb(F, f, e[1], depth + 1, set(seen))
    if k == "field" and isinstance(e[1], tuple):
        # a setting read from a configuration object: bounded by every construction of that object
        base = e[1]
        while base[0] in ("cast",):
            base = base[1]
        ty = None
        if base[0] == "param":
            ty = f.locals[base[1]]["ty"]
        elif base[0] == "field" and base[1][0] == "param":
            ty = None
        if ty:
            name = ty.lstrip("&").replace("mut ", "").strip().split("<")[0]
            cands = [a for a in F.adts if a == name or a.endswith("::" + name.split("::")[-1])]
            if len(cands) == 1:
                return field_lb(F, cands[0], e[2], depth + 1, set(seen))
        return None
    if k == "binop":
        op, a, b = e[1], e[2], e[3]
        la, lb = expr_lb(F, f, a, depth + 1, seen, penv), expr_lb(F, f, b, depth + 1, seen, penv)
        if op in ("Add", "AddUnchecked", "AddWithOverflow"):
            return la + lb if la is not None and lb is not None else None
        if op in ("Sub", "SubUnchecked", "SubWithOverflow"):
            ub = upper_const(F, f, b)
            if la is None or ub is None or la - ub < 0:
                return None                     # may wrap below zero: unknown
            return la - ub
        if op == "BitOr":
            return max(la or 0, lb or 0)
        if op in ("Shr", "ShrUnchecked"):
            c = upper_const(F, f, b)
            return (la >> c) if la is not None and c is not None and 0 <= c < 128 else 0
        if op in ("Shl", "ShlUnchecked"):
            return la                                # (overflow of the shift is not this rule's concern)
        if op == "Div":
            c = upper_const(F, f, b)
            return la // c if la is not None and c else (0 if c else None)
        if op in ("Mul", "MulUnchecked", "MulWithOverflow"):
            return la * lb if la is not None and lb is not None else None
        if op in ("BitAnd", "Rem"):
            return 0
        return None
    if k == "call":
        nm, args = e[1], e[2]
        if (nm.endswith("Iterator::fold") or (nm.endswith(">::fold") and "Iterator" in nm)) and len(args) == 3 and args[2][0] == "agg" and args[2][1] in F.fns:
            # a fold whose step never lowers the accumulator's bound: by induction the result is bounded by the initial value's
            # bound (zero steps give the initial value itself); the element is an unsigned value of unknown size
            L = expr_lb(F, f, args[1], depth + 1, seen, penv)
            c = F.fns[args[2][1]]
            if L is None or c.argc < 3:
                return None
            step = expr_lb(F, c, c.origin_local(0), depth + 1, seen, {2: L, 3: 0})
            return L if step is not None and step >= L else None
        if (nm.endswith("cmp::Ord::max") or nm.endswith("cmp::max")) and len(args) == 2:
            bs = [expr_lb(F, f, x, depth + 1, seen, penv) for x in args]
            ks = [x for x in bs if x is not None]
            return max(ks) if ks else None
        if (nm.endswith("cmp::Ord::min") or nm.endswith("cmp::min")) and len(args) == 2:
            bs = [expr_lb(F, f, x, depth + 1, seen, penv) for x in args]
            return min(bs) if all(x is not None for x in bs) else None
        if nm.endswith("::next_power_of_two") and len(args) == 1:
            la = expr_lb(F, f, args[0], depth + 1, seen, penv)
            return max(la or 0, 1)
        if nm.endswith("::clamp") and len(args) == 3:
            return expr_lb(F, f, args[1], depth + 1, seen, penv)
        if nm.endswith("::saturating_sub") and len(args) == 2:
            la, ub = expr_lb(F, f, args[0], depth + 1, seen, penv), upper_const(F, f, args[1])
            return max(la - ub, 0) if la is not None and ub is not None else 0
        if nm.endswith(("::saturating_add", "::wrapping_add")) and len(args) == 2 and nm.endswith("::saturating_add"):
            la, lb = expr_lb(F, f, args[0], depth + 1, seen, penv), expr_lb(F, f, args[1], depth + 1, seen, penv)
            return la + lb if la is not None and lb is not None else None
        return None
    if k == "phi":
        bs = [expr_lb(F, f, x, depth + 1, seen, penv) for x in e[1]]
        return min(bs) if bs and all(x is not None for x in bs) else None
    return None


def sketch_bounds(ctx):
    from sym import ipaths
    F = ctx.facts
    rows = [n for n, a in F.adts.items() if a["kind"] == "Struct" and len(a["variants"][0]["fields"]) == 1 and a["variants"][0]["fields"][0]["ty"].startswith("std::vec::Vec<u8")]
    n_cons = 0
    for row in rows:
        short = row.split("::")[-1]
        for skn, a in sorted(F.adts.items()):
            if a["kind"] != "Struct" or skn == row:
                continue
            flds = a["variants"][0]["fields"]
            mat_f = [fl["name"] for fl in flds if short in fl["ty"]]
            mod_f = [fl["name"] for fl in flds if fl["ty"] == "u64"]
            if len(mat_f) != 1 or len(mod_f) != 1:
                continue
            for n_, g in sorted(F.fns.items()):
                if g.kind == "Closure" or not any(st["k"] == "assign" and st["rv"]["k"] == "agg" and st["rv"].get("adt") == skn for b in g.live_blocks() for st in g.blocks[b]["stmts"]):
                    continue
                ctx.touch(g)
                worst, shown, n_paths = None, "", 0
                for p in ipaths(F, g, stop=lambda n: False, depth=3):
                    r = p.ret
                    if not (r[0] == "agg" and r[1] == skn):
                        continue
                    T = dict(r[3]).get(mod_f[0])
                    if T is None:
                        continue
                    n_paths += 1
                    lb = expr_lb(F, g, T)
                    if worst is None or (lb if lb is not None else -1) < worst:
                        worst, shown = (lb if lb is not None else -1), fmt(T)[:160]
                if not n_paths:
                    continue
                n_cons += 1
                ctx.check(worst is not None and worst >= 2, "R17.15", "%s|modulus-at-least-two" % n_,
                          "the position modulus of the sketch is at least 2 for every size the builder accepts, so a row of modulus/2 bytes (R14.9) is never empty and `(hash % modulus)/2` (R14.1, R14.5) is in bounds",
                          g.where(), "lower bound of the modulus over all accepted sizes: %s (%s)%s" % ("unknown" if worst == -1 else worst, shown,
                          "; with the smallest accepted size the rows are empty: the first estimate or increment panics the command worker / the access consumer" if worst is not None and worst < 2 else ""))
                # ---- R17.16 the modulus is even (a power of two): position p lives in byte p/2 of a row of modulus/2 bytes, so the
                # largest position modulus-1 is in bounds iff the modulus is even.  Where the modulus is written as the classic
                # bit-smearing `x |= x >> s1; x |= x >> s2; ..; x + 1` with constant shifts, the chain must cover the word: after
                # `x |= x >> s` the run of ones below the top bit grows from w to w + s provided s <= w (start w = 1).  A chain
                # that stops short of the type's width leaves a zero among the low bits for some sizes, x + 1 is then odd, and a
                # non-power-of-two `counters` indexes one byte past the row.  Other ways of writing the rounding (a loop or fold
                # over a table of shifts, `next_power_of_two()`) are not judged by this rule (recorded as such).
                for p in ipaths(F, g, stop=lambda n: False, depth=3):
                    r = p.ret
                    if not (r[0] == "agg" and r[1] == skn):
                        continue
                    T = peel_casts(dict(r[3]).get(mod_f[0]))
                    verdict = smear_verdict(F, g, T)
                    if verdict is None:
                        ctx.ok("R17.16", "%s|modulus-even|form-not-judged" % n_, "the modulus is not written as a constant-shift smearing chain (e.g. next_power_of_two(), a loop or fold over a shift table): its evenness is not decided here (§6)", g.where(), fmt(T)[:120])
                    else:
                        okv, why = verdict
                        ctx.check(okv, "R17.16", "%s|smearing-covers-the-word" % n_,
                                  "the bit-smearing that rounds the sketch size up doubles its run of ones at every step until it covers the word, so the modulus is a power of two (even): the last position modulus-1 lies in byte modulus/2 - 1", g.where(), why)
                    break
    ctx.floor("R17.15", "sketch constructions with a position modulus", n_cons, 1)


def smear_verdict(F, g, T):
    """None if T is not `chain + 1` with chain = nested `a | (a >> const)`; else (ok, explanation)"""
    from c14 import canon
    if not (isinstance(T, tuple) and T and T[0] == "binop" and T[1] in ("Add", "AddUnchecked", "AddWithOverflow")):
        return None
    chain = None
    for a, b in ((T[2], T[3]), (T[3], T[2])):
        if peel_casts(b) == ("const", 1, peel_casts(b)[2] if len(peel_casts(b)) > 2 else None) or (peel_casts(b)[0] == "const" and peel_casts(b)[1] == 1):
            chain = peel_casts(a)
    if chain is None:
        return None
    shifts = []
    cur = chain
    # the same chain as a fold over a literal table of shifts: `[1, 2, 4, ..].iter().fold(x, |acc, s| acc | (acc >> s))`
    if cur[0] == "call" and (cur[1].endswith("Iterator::fold") or (cur[1].endswith(">::fold") and "Iterator" in cur[1])) and len(cur[2]) == 3:
        it, init, clo = (peel_casts(a) for a in cur[2])
        arr = it
        while arr[0] == "call" and len(arr[2]) == 1 and arr[1].split("::")[-1] in ("iter", "into_iter", "copied", "cloned"):
            arr = peel_casts(arr[2][0])
        if not (arr[0] == "agg" and arr[1] == "array" and clo[0] == "agg" and clo[1] in F.fns and F.fns[clo[1]].argc >= 3 and not clo[3]):
            return None
        consts = [peel_casts(v) for _, v in arr[3]]
        if not all(c[0] == "const" and isinstance(c[1], int) for c in consts):
            return None
        body = peel_casts(F.fns[clo[1]].origin_local(0))
        acc, el = ("param", 2), ("param", 3)
        def is_el(x):
            x = peel_casts(x)
            while isinstance(x, tuple) and x and x[0] in ("deref", "cast", "ref") and len(x) > 1:
                x = peel_casts(x[1])
            return x == el
        okb = body[0] == "binop" and body[1] == "BitOr" and any(
            peel_casts(a) == acc and peel_casts(b)[0] == "binop" and peel_casts(b)[1] in ("Shr", "ShrUnchecked") and peel_casts(peel_casts(b)[2]) == acc and is_el(peel_casts(b)[3])
            for a, b in ((body[2], body[3]), (body[3], body[2])))
        if not okb:
            return None
        return _smear_judge(F, g, [c[1] for c in consts], init)
    while isinstance(cur, tuple) and cur and cur[0] == "binop" and cur[1] == "BitOr":
        x, y = peel_casts(cur[2]), peel_casts(cur[3])
        step = None
        for a, b in ((x, y), (y, x)):
            if b[0] == "binop" and b[1] in ("Shr", "ShrUnchecked") and canon(peel_casts(b[2])) == canon(a):
                c = peel_casts(b[3])
                if c[0] != "const" or not isinstance(c[1], int):
                    return None                  # a symbolic shift (table-driven): not judged
                step = (a, c[1])
        if step is None:
            return None
        shifts.append(step[1])
        cur = step[0]
    if not shifts:
        return None
    shifts.reverse()                             # execution order
    return _smear_judge(F, g, shifts, cur)


def _smear_judge(F, g, shifts, cur):
    base_lb = expr_lb(F, g, cur)
    w = 1
    for s_ in shifts:
        if s_ <= w:
            w += s_
    width = 64
    if w >= width and base_lb is not None and base_lb >= 1:
        return True, "shifts %s: the run of ones reaches %d >= %d bits; smeared value >= %s" % (shifts, w, width, base_lb)
    # a concrete size for the report: evaluate the recognised chain for small sizes
    witness = None
    for c in range(1, 1 << 18):
        x = max(c, 2) - 1 if base_lb is not None and base_lb >= 1 else c
        for s_ in shifts:
            x |= x >> s_
        if (x + 1) % 2 == 1:
            witness = (c, x + 1)
            break
    return False, "shifts %s guarantee a run of only %d ones below the top bit (needs %d)%s%s" % (
        shifts, w, width, "; the smeared value may be 0" if base_lb is None or base_lb < 1 else "",
        "; e.g. a requested size near %d gives the odd modulus %d: position %d is in byte %d of a %d-byte row" % (witness[0], witness[1], witness[1] - 1, (witness[1] - 1) // 2, witness[1] // 2) if witness else "")
