"""C14 — frequency estimates never under-count, saturate safely and age by halving (structural premises).  (DESIGN §4 C14)"""
from core import (strip_site, fmt, enum_paths, path_atoms, path_calls, mentions, subexprs, is_call_to, bool_branches,
                  closure_captures, const_of, le_truth, lt_truth, reaches_call, same_value)

from sym import ipaths
from iters import elem_loops, ELEM

LEVEL = "other"
EXPLANATION = ("Premises of two bit-vector lemmas and the count-min structure, checked on MIR. Lemma A: if "
               "((b >> s) & 0xF) < 0xF with s in {0,4} then b + (1 << s) changes only that nibble, by +1. Lemma B: "
               "(b >> 1) & 0x77 halves both nibbles rounding down. Checked: the only write of the increment is "
               "+= 1 << shift under that very guard with the same index and shift; increment and read agree on "
               "index = pos/2, shift = (pos & 1) * 4 and mask 0xF; the constants; halving rewrites every byte of "
               "every row with (b >> 1) & 0x77; increment and estimate visit all rows with position "
               "(hash ^ seed[row]) % total_counters, estimate folding with minimum from u8::MAX; the doorkeeper/"
               "sketch/reset decision table; rows hold modulus/2 bytes (R14.9). Collision behaviour and the lemmas "
               "themselves are numeric facts not decided here; that the modulus is at least 2 and even for every accepted "
               "size is decided under C17 (R17.15, R17.16).")
ASSUMPTIONS = ["Lemma A and Lemma B (two-line paper proofs in DESIGN.md)", "bloomfilter::Bloom set/check/clear behave as documented"]


def run(ctx):
    F = ctx.facts
    row_adts = [n for n, a in F.adts.items() if a["kind"] == "Struct" and len(a["variants"][0]["fields"]) == 1 and a["variants"][0]["fields"][0]["ty"].startswith("std::vec::Vec<u8")]
    ctx.floor("R14.0", "packed counter row types", len(row_adts), 1)
    if not row_adts:
        return
    row = row_adts[0]
    rshort = row.split("::")[-1]
    rfns = [f for n, f in F.fns.items() if f.kind != "Closure" and f.argc >= 1 and f.locals[1]["ty"].lstrip("&mut ").startswith(row)]
    base = ("field", ("param", 1), "0")

    def IDX(pos):
        return ("cast", ("binop", "Div", pos, ("const", 2, "u64")), "usize")

    def SHIFT(pos):
        e = ("binop", "Mul", ("binop", "BitAnd", pos, ("const", 1, "u64")), ("const", 4, "u64"))
        return e

    def norm(e):
        return strip_site(e)

    def eq_mod_comm(a, b):
        return canon(a) == canon(b)

    inc_fn = get_fn = None
    for f in rfns:
        st = [x for x in f.stores() if x[2][0] == "index" and x[2][1] == base]
        if st and f.argc == 2:
            inc_fn = f
        r = f.origin_local(0)
        if f.rec.get("ret") == "u8" and f.argc == 2 and f.locals[2]["ty"] in ("u64", "usize", "u32") and get_fn is None:
            # the read *by position*: its result is a cell of the row, directly or through private helpers (`value_in(Slot::of(pos))`)
            if mentions(r, lambda s: s[0] == "index" and s[1] == base) or \
               any(mentions(p_.ret, lambda s: s[0] == "index" and strip_site(s[1]) == base) for p_ in ipaths(F, f, stop=lambda n_: False, depth=3)):
                get_fn = f
    ctx.check(inc_fn is not None and get_fn is not None, "R14.1", "counter-accessors", "packed-counter increment and read functions found", detail="%s %s" % (inc_fn.name if inc_fn else None, get_fn.name if get_fn else None))
    if inc_fn is None or get_fn is None:
        return
    pos = ("param", 2)
    cell = ("index", base, IDX(pos))
    # ---- R14.1 ------------------------------------------------------------------------------------
    f = inc_fn
    ctx.touch(f)
    # per path (helper types / accessors inlined, the comparison read whichever way it is written): a path that writes does
    # exactly one write, row[pos/2] += 1 << shift, after establishing ((row[pos/2] >> shift) & 0xF) < 0xF; no other write
    want_rv = ("binop", "Add", cell, ("binop", "Shl", ("const", 1, "u8"), SHIFT(pos)))
    cur = ("binop", "BitAnd", ("binop", "Shr", cell, SHIFT(pos)), ("const", 15, "u8"))
    is_cur = lambda z: eq_mod_comm(z, cur)
    is_max = lambda z: z == ("const", 15, "u8")
    ok = True
    detail = ""
    n_w = 0
    PAR = ("binop", "BitAnd", pos, ("const", 1, "u64"))

    def parity_of(p_):
        """0 / 1 when the path has branched on `pos & 1` (a nibble selected by a match instead of by arithmetic), else None"""
        for a in p_.atoms:
            if a[0] == "bool" and a[1][0] == "binop" and a[1][1] == "Eq":
                x, y = a[1][2], a[1][3]
                for u, v in ((x, y), (y, x)):
                    if canon(u) == canon(PAR) and v[0] == "const" and v[1] in (0, 1):
                        return v[1] if a[2] else 1 - v[1]
        return None

    def at_parity(e, par):
        return fold_consts(_replace(canon(e), canon(PAR), ("const", par))) if par is not None else canon(e)

    for p in ipaths(F, f, stop=lambda n_: False, depth=3):
        par = parity_of(p)
        if len(p.stores) > 1:
            ok, detail = False, "%d writes on one path" % len(p.stores)
        for tgt, rv, w_ in p.stores:
            n_w += 1
            is_cur_p = lambda z, par=par: at_parity(z, par) == at_parity(cur, par)
            lt = [lt_truth(a, is_cur_p, is_max) for a in p.atoms if a[4] < w_[3]]
            lt = [x for x in lt if x is not None]
            if not (eq_mod_comm(tgt, cell) and at_parity(rv, par) == at_parity(want_rv, par)):
                ok, detail = False, "store %s = %s" % (fmt(tgt)[:80], fmt(rv)[:120])
            elif not (lt and lt[-1] is True):
                ok, detail = False, "the write is not preceded by the saturation test of the same cell"
    ok = ok and n_w >= 1
    ctx.check(ok, "R14.1", "%s|increment-under-saturation-guard" % f.name,
              "the only write is row[pos/2] += 1 << shift, and only when ((row[pos/2] >> shift) & 0xF) < 0xF for the same index and shift (premise of Lemma A: no carry into the neighbour, no wrap)",
              f.where(), detail)
    # ---- R14.2 ------------------------------------------------------------------------------------
    want = ("binop", "BitAnd", ("binop", "Shr", cell, SHIFT(pos)), ("const", 15, "u8"))
    badr = []
    n_r = 0
    for p in ipaths(F, get_fn, stop=lambda n_: False, depth=3):
        par = parity_of(p)
        n_r += 1
        if at_parity(p.ret, par) != at_parity(want, par):
            badr.append(fmt(p.ret)[:120])
    ctx.check(not badr and n_r >= 1, "R14.2", "%s|read-agrees-with-increment" % get_fn.name,
              "the read extracts (row[pos/2] >> ((pos & 1) * 4)) & 0xF: the same index, shift and mask as the increment", get_fn.where(), "; ".join(badr[:2]))
    # ---- R14.3 ------------------------------------------------------------------------------------
    want_consts = {"BINARY_ONE": 1, "MAX_VALUE_LOWER_FOUR_BITS": 15, "SHIFT_OFFSET": 4, "HALF_COUNTERS_BITS": 0x77, "ROWS": 4}
    for k, v in want_consts.items():
        got = [c["v"] for n, c in F.consts.items() if n.endswith("::" + k)]
        if got:
            ctx.check(got[0] == v, "R14.3", "const|%s" % k, "%s == %d" % (k, v), detail=str(got))
    rows_c = [c["v"] for n, c in F.consts.items() if n.endswith("frequency_counter::ROWS")]
    ROWS = rows_c[0] if rows_c else None
    ctx.check(ROWS is not None and ROWS >= 1, "R14.3", "rows-const", "the number of rows is a positive constant", detail=str(rows_c))
    # ---- R14.4 halving --------------------------------------------------------------------------------
    # every halving mask used on the row's storage keeps the low three bits of EVERY nibble of its width (a wider,
    # word-at-a-time halving is fine as long as its mask is 0x77 replicated over the whole word)
    NIBBLES = {"u8": 2, "u16": 4, "u32": 8, "u64": 16, "usize": 16, "u128": 32}
    # everything written in the row type's impl blocks (methods, associated helpers such as a named per-byte function) and
    # their closures
    scope = [f for n, f in F.fns.items() if f.kind != "Closure" and (f.rec.get("self_ty") or "") == row]
    for f in list(scope):
        scope += F.closures_of(f)
    nmask = 0
    for g in scope:
        for b in sorted(g.live_blocks()):
            for i, st in enumerate(g.blocks[b]["stmts"]):
                if st["k"] != "assign" or st["rv"]["k"] != "binop" or st["rv"]["op"] != "BitAnd":
                    continue
                e = g.origin_rvalue(st["rv"])
                if e[0] != "binop" or e[1] != "BitAnd":
                    continue
                x, y = e[2], e[3]
                if y[0] == "binop" and y[1] == "Shr":
                    x, y = y, x
                if not (x[0] == "binop" and x[1] == "Shr" and const_of(x[3]) == 1):
                    continue
                nmask += 1
                ty = y[2] if y[0] == "const" and len(y) > 2 else None
                want = int("7" * NIBBLES[ty], 16) if ty in NIBBLES else None
                ctx.check(y[0] == "const" and want is not None and y[1] == want, "R14.4", "%s|halving-mask-covers-every-nibble" % g.name,
                          "a halving `(x >> 1) & M` on the counter storage uses M = 0x7 in every nibble of its width, so no counter inherits its left neighbour's low bit",
                          g.where(b, i), "mask=%s" % (fmt(y),))
    ctx.floor("R14.4", "halving mask expressions", nmask, 1)
    # ---- halving loops: a Row method with an element loop over every byte of the row whose body rewrites that byte with
    #      (b >> 1) & M  (closure, fn item or `for` loop alike); the word-at-a-time form (whole chunks + tail bytes) too
    def is_halving(v, x):
        if not (v[0] == "binop" and v[1] == "BitAnd"):
            return False
        for sh, m in ((v[2], v[3]), (v[3], v[2])):
            if sh[0] == "binop" and sh[1] == "Shr" and strip_site(sh[2]) == strip_site(x) and const_of(sh[3]) == 1 and m[0] == "const":
                return True
        return False
    half_fns = set()
    n_half = 0
    for f in rfns:
        for L in elem_loops(F, f):
            k = L.over_all(lambda c_: strip_site(c_) == base)
            tail = L.over_all(lambda c_: is_call_to(c_, "into_remainder"))
            kk = k if k is not None else tail
            if kk is None or not L.bodies:
                continue
            if not all(len(p.stores) == 1 and p.stores[0][0] == ELEM(kk) and is_halving(p.stores[0][1], ELEM(kk)) for p in L.bodies):
                continue
            n_half += 1
            ok, form = False, ""
            if k is not None:
                ok, form = True, "every byte"
            else:
                ch = L.sources[tail][1][2][0]
                whole = [1 for b2, t2 in f.calls() if t2["callee"].endswith("copy_from_slice")
                         and mentions(f.op_origin(t2["args"][1]), lambda s_: s_[0] == "binop" and s_[1] == "BitAnd" and any(z[0] == "binop" and z[1] == "Shr" for z in s_[2:4]))]
                if is_call_to(ch, "chunks_exact_mut") and ch[2] and mentions(ch[2][0], lambda s_: s_ == base) and whole:
                    ok, form = True, "whole words + tail bytes"
            if ok:
                half_fns.add(f.name)
            ctx.check(ok, "R14.4", "%s|halve-every-byte" % f.name, "halving is applied to every byte of the row (an element loop over the row itself%s)" % (": " + form if form else ""), L.where())
    ctx.floor("R14.4", "halving loops ((b >> 1) & M over every byte of a row)", n_half, 1)

    # the sketch: rows and seeds are arrays of ROWS elements of one struct
    sk = None
    for name, adt in F.adts.items():
        if adt["kind"] != "Struct":
            continue
        fs = adt["variants"][0]["fields"]
        mf = [x for x in fs if x["ty"].startswith("[" + row + ";")]
        sf = [x for x in fs if x["ty"].startswith("[u64;")]
        if len(mf) == 1 and len(sf) == 1:
            sk = (name, mf[0]["name"], sf[0]["name"], mf[0]["ty"].rstrip("]").split(";")[-1].strip(), sf[0]["ty"].rstrip("]").split(";")[-1].strip())
    ctx.check(sk is not None and sk[3] == sk[4] and (sk[3] == str(ROWS) or not sk[3].isdigit()), "R14.3", "rows-and-seeds-arrays", "the sketch keeps as many seeds as rows (ROWS of each)", detail=str(sk))
    if sk is None:
        return
    MAT, SEEDS = ("field", ("param", 1), sk[1]), ("field", ("param", 1), sk[2])

    def tokens(L):
        """(row element, seed element, covers every row) of a loop over the sketch, in body terms"""
        km, ks = L.over_all(lambda c_: strip_site(c_) == MAT), L.over_all(lambda c_: strip_site(c_) == SEEDS)
        if km is not None:
            return ELEM(km), (ELEM(ks) if ks is not None else None), True
        for k, src in enumerate(L.sources):
            if src[0] == "range":
                full = src[1] == ("const", 0, "usize") and const_of(src[2]) == ROWS
                return ("index", MAT, ELEM(k)), ("index", SEEDS, ELEM(k)), full
        return None, None, False

    resets = []
    sk_fns = [f for n, f in F.fns.items() if f.kind != "Closure" and (f.rec.get("self_ty") or "").split("<")[0] == sk[0]]
    for f in sk_fns:
        n = f.name
        for L in elem_loops(F, f, stop=lambda x: x in half_fns):
            calls = [p.calls(half_fns) for p in (L.bodies or [])]
            if not any(calls):
                continue
            rowt, _, full = tokens(L)
            ok = rowt is not None and full and all(len(cs) == 1 and strip_site(cs[0].args[0]) == rowt for cs in calls)
            resets.append(f.name)
            ctx.check(ok, "R14.4", "%s|halve-all-rows" % n, "ageing halves every row: once per element of the row array (or per index in 0..ROWS)", L.where(),
                      "sources=%s" % [fmt(s_[1])[:40] for s_ in L.sources])
    ctx.floor("R14.4", "sketch reset functions", len(resets), 1)
    # ---- R14.5 count-min ------------------------------------------------------------------------------
    inc_loops, get_loops = [], []
    for f in sk_fns:
        for L in elem_loops(F, f, stop=lambda x: x in (inc_fn.name, get_fn.name)):
            if any(p.calls({inc_fn.name}) for p in (L.bodies or [])):
                inc_loops.append(L)
            if any(p.calls({get_fn.name}) for p in (L.bodies or [])):
                get_loops.append(L)
    ctx.check(len(inc_loops) == 1 and len(get_loops) == 1, "R14.5", "one-visitor-each", "one increment visitor and one estimate visitor over the rows",
              detail="%s %s" % (inc_loops, get_loops))
    inc_sites, get_sites = inc_loops, get_loops
    if len(inc_loops) == 1 and len(get_loops) == 1:
        Li, Lg = inc_loops[0], get_loops[0]

        def cells(L, target):
            rowt, seedt, full = tokens(L)
            out = []
            for p in L.bodies:
                cs = p.calls({target.name})
                if len(cs) != 1:
                    return None, full
                row_a, pos_a = strip_site(cs[0].args[0]), canon(cs[0].args[1])
                modulus = [x for x in subexprs(cs[0].args[1]) if x[0] == "field" and x[1] == ("param", 1)]
                want = canon(("binop", "Rem", ("binop", "BitXor", ("param", 2), seedt), modulus[-1])) if (modulus and seedt is not None) else None
                out.append((row_a == rowt, pos_a == want, fmt(modulus[-1]) if modulus else None))
            return out, full
        ci_, fi = cells(Li, inc_fn)
        cg_, fg = cells(Lg, get_fn)
        okc = bool(ci_) and bool(cg_) and all(r_ and p_ for r_, p_, m_ in ci_ + cg_) and len({m_ for r_, p_, m_ in ci_ + cg_}) == 1
        ctx.check(okc, "R14.5", "same-cells",
                  "increment and estimate address the same cell in each row: the row element, position = (hash ^ that row's seed) % total_counters", Li.where(),
                  "inc %s / est %s" % (ci_, cg_))
        for L, full, label in ((Li, fi, "increment"), (Lg, fg, "estimate")):
            ctx.check(full, "R14.5", "%s|all-rows|%s" % (L.fn.name, label), "%s visits every row (all elements of the row array, or every index 0..ROWS) with the key hash it was given" % label, L.where())
        # estimate = minimum starting from u8::MAX
        p = Lg.fn
        r = p.origin_local(0)
        okm = False
        if Lg.sink == "min":
            res = Lg.extra["result"]
            maps_get = all(len(q.calls({get_fn.name})) == 1 and strip_site(q.ret) == strip_site(q.calls({get_fn.name})[0].res) for q in Lg.bodies)
            okm = maps_get and r[0] == "call" and r[1].endswith("Option::<T>::unwrap_or") and strip_site(r[2][0]) == strip_site(res) and r[2][1] == ("const", 255, "u8")
        elif Lg.sink == "fold":
            # map(|row| reading).fold(MAX, |min, x| if x < min { x } else { min })
            init, fc = Lg.extra.get("fold_init"), Lg.extra.get("fold_fn")
            maps_get = all(len(q.calls({get_fn.name})) == 1 and strip_site(q.ret) == strip_site(q.calls({get_fn.name})[0].res) for q in Lg.bodies)
            is_min = fc is not None and fc[0] == "fnconst" and fc[1].split("<")[0].rstrip(":").endswith(("cmp::Ord::min", "cmp::min"))
            if fc is not None and fc[0] == "agg" and fc[1] in F.fns:
                rows_ = set()
                for q in ipaths(F, F.fns[fc[1]], stop=lambda n_: False, depth=1):
                    lt = [lt_truth(a, lambda z: z == ("param", 3), lambda z: z == ("param", 2)) for a in q.atoms]
                    lt = [x for x in lt if x is not None]
                    if not lt:
                        lt = [x for x in [le_truth(a, lambda z: z == ("param", 3), lambda z: z == ("param", 2)) for a in q.atoms] if x is not None]
                    rows_.add((lt[0] if lt else None, q.ret))
                is_min = rows_ == {(True, ("param", 3)), (False, ("param", 2))}
            okm = maps_get and is_min and init == ("const", 255, "u8") and strip_site(r) == strip_site(Lg.extra["result"])
        elif Lg.sink == "for_each" and Lg.bodies:
            # the closure body run per row (helpers such as an `observe(x)` method of a running-minimum type inlined): one
            # reading; the accumulator - which starts at u8::MAX - is overwritten with it exactly when reading < accumulator
            okb = True
            for q in Lg.bodies:
                gs = q.calls({get_fn.name})
                lts = [a for a in q.atoms if a[0] == "bool" and a[1][0] == "binop" and a[1][1] in ("Lt", "Le") and len(gs) == 1 and strip_site(a[1][2]) == strip_site(gs[0].res)]     # (`<=` overwrites with an equal value: the same minimum)
                if len(gs) != 1 or len(lts) != 1:
                    okb = False
                    continue
                acc = strip_site(lts[0][1][3])
                if lts[0][2]:
                    okb = okb and len(q.stores) == 1 and strip_site(q.stores[0][0]) == acc and strip_site(q.stores[0][1]) == strip_site(gs[0].res)
                else:
                    okb = okb and not q.stores
                okb = okb and acc == ("const", 255, "u8")
            okm = okb and (r == ("const", 255, "u8") or (r[0] == "agg" and [x for _, x in r[3]] == [("const", 255, "u8")]))
        elif Lg.sink in ("for", "while"):
            # inline fold: some local is overwritten with the row's reading exactly under `reading < that local`, starts at
            # u8::MAX and is what the function returns
            folds = set()
            okf = True
            for q in Lg.bodies:
                gs = q.calls({get_fn.name})
                if len(gs) != 1:
                    okf = False
                    continue
                for l_, v_ in q.env.items():
                    if strip_site(v_) == strip_site(gs[0].res) and p.locals[l_]["ty"] == "u8" and l_ != gs[0].t["dest"]["l"]:
                        cur = p.origin_local(l_)
                        lt = [a for a in q.atoms if a[0] == "bool" and a[2] and a[1][0] == "binop" and a[1][1] in ("Lt", "Le") and strip_site(a[1][2]) == strip_site(gs[0].res)]
                        if lt and mentions(cur, lambda s_: s_ == ("const", 255, "u8")):
                            folds.add(l_)
            okm = okf and len(folds) == 1 and strip_site(r) == strip_site(p.origin_local(list(folds)[0]))
        ctx.check(okm, "R14.5", "%s|minimum-from-max" % p.name,
                  "the estimate is the minimum over the rows, folded from u8::MAX (count-min never under-counts a key's own increments)", p.where(), "sink=%s ret=%s" % (Lg.sink, fmt(r)[:100]))
    # ---- R14.6 / R14.7 TinyLFU table ---------------------------------------------------------------------
    sk_inc = {L.fn.name for L in inc_sites}
    sk_est = {L.fn.name for L in get_sites}
    # (the bench-only proxies of the `bench_testable` feature forward to the sketch directly: not the cache's access path)
    # ageing functions: zero a u64 field of self, halve the sketch (a reset function of R14.4) and clear the doorkeeper
    age_fns = {}
    for n, g in F.fns.items():
        if g.kind == "Closure" or g.argc < 1:
            continue
        z = [x for x in g.stores() if x[2][0] == "field" and x[2][1] == ("param", 1) and x[3] == ("const", 0, "u64")]
        hv = [1 for bb, tt in g.calls() if tt.get("rpath") in set(resets)]
        cl = [1 for bb, tt in g.calls() if tt.get("rpath", "").endswith("DoorKeeper::clear")]
        if z and hv and not reaches_call(F, g, "::add_if_missing", 1):
            age_fns[n] = z[0][2][2]
            ctx.check(bool(cl) and len(z) == 1, "R14.6", "%s|reset-ages-everything" % n,
                      "ageing zeroes the access counter, halves the sketch and clears the first-access filter", g.where())
    dk_fns = {n for n in F.fns if n.endswith("::add_if_missing")}
    rs_fns = set(resets)
    clear_fns = {n for n in F.fns if n.endswith("DoorKeeper::clear")}
    opaque = lambda n: n in dk_fns or n in sk_inc or n in age_fns or n in rs_fns or n in clear_fns
    cands = {}
    cand_key = {}
    for n, f in F.fns.items():
        if f.kind == "Closure" or n.startswith("cache::proxy::") or f.argc < 2 or n in dk_fns or n in sk_inc or n in age_fns:
            continue
        if not reaches_call(F, f, "::add_if_missing", 2):
            continue
        ps = ipaths(F, f, stop=opaque, depth=2)
        if ps and all(len(p.calls(dk_fns)) == 1 and p.calls(dk_fns)[0].args[1] == ("param", 2) for p in ps):
            cands[n] = (f, ps)
            cand_key[n] = ("param", 2)
            continue
        # the per-access step written inside the loop over a buffer of hashes (`for h in hashes { .. }`): the loop's body,
        # with the element as the key, is the access-recording step
        for L_ in elem_loops(F, f, stop=opaque, depth=2):
            k_ = L_.over_all(lambda c_: strip_site(c_)[0] == "param")
            if k_ is None or not L_.bodies:
                continue
            if all(len(q.calls(dk_fns)) == 1 and q.calls(dk_fns)[0].args[1] == ELEM(k_) for q in L_.bodies):
                cands[n] = (f, L_.bodies)
                cand_key[n] = ELEM(k_)
    lfu = [cands[n][0] for n in sorted(cands) if not any(t.get("rpath") == n for m in cands if m != n for b, t in cands[m][0].calls())]
    ctx.floor("R14.6", "access-recording functions (doorkeeper then sketch)", len(lfu), 1)
    counter = None
    inline_age = False
    for f in lfu:
        ctx.touch(f)
        bad = []
        rows_seen = set()
        for p in cands[f.name][1]:
            dk = p.calls(dk_fns)
            inc = p.calls(sk_inc)
            # ageing: a call of an ageing function, or (when that private function is part of this one) the sketch reset itself
            rs = p.calls(set(age_fns)) or p.calls(rs_fns)
            a = [x for x in p.atoms if x[0] == "bool" and strip_site(x[1]) == strip_site(dk[0].res)]
            if not a:
                bad.append("doorkeeper result not branched on")
                continue
            if a[0][2] and inc:
                bad.append("first access (newly added to the doorkeeper) also increments the sketch")
            if not a[0][2] and len(inc) != 1:
                bad.append("repeated access increments the sketch %d times" % len(inc))
            if inc and inc[0].args[1] != cand_key[f.name]:
                bad.append("sketch incremented for a different hash")
            bumps = [x for x in p.stores if x[0][0] == "field" and x[0][1] == ("param", 1) and x[1][0] == "binop" and x[1][1] == "Add" and ("const", 1, "u64") in (x[1][2], x[1][3])]
            if len(bumps) != 1:
                bad.append("access counter bumped %d times on a path" % len(bumps))
                continue
            counter = bumps[0][0][2]
            cnt = ("field", ("param", 1), counter)
            th = [le_truth(x, lambda z: z[0] == "field" and z[1] == ("param", 1) and z[2] != counter, lambda z: z == cnt) for x in p.atoms]
            th = [x for x in th if x is not None]
            if not th:
                bad.append("threshold test counter >= reset_at missing")
                continue
            rows_seen.add((a[0][2], th[0]))
            if th[0] != (len(rs) == 1):
                bad.append("reset must run iff the counter reached the threshold")
            if th[0] and rs and rs[0].seq < bumps[0][2][3]:
                bad.append("reset before counting the access")
            if rs and rs[0].callee in age_fns and age_fns.get(rs[0].callee) != counter:
                bad.append("the ageing function zeroes another field than the access counter")
            if rs and rs[0].callee in rs_fns:
                zero = [x for x in p.stores if x[0] == ("field", ("param", 1), counter) and x[1] == ("const", 0, "u64") and x[2][3] > bumps[0][2][3]]
                if not (len(zero) == 1 and p.calls(clear_fns)):
                    bad.append("ageing must zero the access counter, halve the sketch and clear the first-access filter")
                else:
                    inline_age = True
        ctx.check(not bad and len(rows_seen) == 4, "R14.6", "%s|doorkeeper-sketch-reset-table" % f.name,
                  "sketch incremented iff the doorkeeper already had the key; access counter += 1 on every path; counter >= threshold <=> reset (4 rows)", f.where(), "; ".join(sorted(set(bad))[:3]))
    # ---- R14.9 every position has a counter: positions are `.. % total` (R14.5), a counter position p lives in byte p/2
    # (R14.1), so each row must hold at least total/2 bytes, `total` being the very value stored as the modulus.  A row sized
    # from another quantity (or total/4) makes increments index out of bounds on the consumer thread.
    sk = [n_ for n_, a_ in F.adts.items() if a_["kind"] == "Struct" and any(row in fl["ty"] for fl in a_["variants"][0]["fields"]) and n_ != row]
    n_size = 0
    for skn in sk:
        flds = F.adts[skn]["variants"][0]["fields"]
        mat_f = [fl["name"] for fl in flds if row in fl["ty"]]
        mod_f = [fl["name"] for fl in flds if fl["ty"] == "u64"]
        if len(mat_f) != 1 or len(mod_f) != 1:
            continue
        for n_, g in sorted(F.fns.items()):
            for b in sorted(g.live_blocks()):
                for i, st in enumerate(g.blocks[b]["stmts"]):
                    if not (st["k"] == "assign" and st["rv"]["k"] == "agg" and st["rv"].get("adt") == skn):
                        continue
                    n_size += 1
                    e = dict(g.origin_rvalue(st["rv"])[3])
                    M, T = e.get(mat_f[0]), e.get(mod_f[0])
                    ok, why = False, "the rows are not built by a local function of the modulus"
                    if M is not None and T is not None and M[0] == "call" and M[1] in F.fns:
                        h = F.fns[M[1]]
                        lens = []
                        for hh in [h] + F.closures_of(h):
                            for bb, tt in hh.calls():
                                if tt["callee"] == "std::vec::from_elem" and len(tt["args"]) >= 2:
                                    import c09
                                    lens.append(c09.resolve_env(F, hh, hh.op_origin(tt["args"][1])))
                        from core import subst_params
                        T0 = canon(T)
                        accepted = [canon(("binop", "Div", T, ("const", 2, "u64"))), canon(("binop", "Shr", T, ("const", 1, "u64"))), T0]
                        got = []
                        for L_ in lens:
                            x = L_
                            while isinstance(x, tuple) and x and x[0] == "cast":
                                x = x[1]
                            x = canon(uncast_all(subst_params(x, list(M[2]))))
                            got.append(x)
                        ok = bool(got) and all(x in [canon(uncast_all(a_)) for a_ in accepted] for x in got)
                        why = "row length(s) %s vs modulus %s" % ([fmt(x)[:60] for x in got], fmt(T0)[:60])
                    ctx.check(ok, "R14.9", "%s|rows-hold-total-over-two-bytes" % n_,
                              "each row is allocated with (at least) total/2 bytes, `total` being the value stored as the position modulus", g.where(b, i), why)
    ctx.floor("R14.9", "sketch constructions", n_size, 1)
    # ---- R14.8 the first-access filter itself: set on first sight, never forgets on its own --------------------------------
    # (R14.6 says *when* the doorkeeper is asked and cleared; this says what the doorkeeper's own operations do, on every
    # path with its helpers inlined: a key not yet in the filter is set exactly once and reported as added; a key already
    # there changes nothing; and the only code that empties the filter is a function that does nothing else - a second,
    # capacity- or time-based way of starting over wipes first accesses in the middle of an ageing window.)
    bloom_types = [n_ for n_, a_ in F.adts.items() if a_["kind"] == "Struct" and any(fl["ty"].startswith("bloomfilter::Bloom<") for fl in a_["variants"][0]["fields"])]
    is_bloom = lambda e, m: e.generic == "bloomfilter::Bloom::<T>::%s" % m
    n_dk = 0
    for n_, g in sorted(F.fns.items()):
        if g.kind == "Closure" or (g.rec.get("self_ty") or "") not in bloom_types:
            continue
        ps = ipaths(F, g, stop=lambda x: False, depth=3)
        sets = [p for p in ps if any(is_bloom(e, "set") for e in p.events)]
        clears = [p for p in ps if any(is_bloom(e, "clear") for e in p.events)]
        if clears:
            n_dk += 1
            pure = all(len([e for e in p.events if not e.log]) == 1 and not p.stores for p in clears) and len(clears) == len(ps)
            ctx.check(pure, "R14.8", "%s|filter-emptied-only-by-a-pure-clear" % n_,
                      "the filter is emptied only by a function that does nothing else (called from ageing / cache clear, R14.6): no other operation of the doorkeeper starts over on its own", g.where())
        elif sets:
            n_dk += 1
            bad = []
            from sym import bool_outcomes
            for p in ps:
                chk = [a for a in p.atoms if a[0] == "bool" and a[1][0] == "call" and a[1][1] == "bloomfilter::Bloom::<T>::check"]
                ns = len([e for e in p.events if is_bloom(e, "set")])
                outs = bool_outcomes(p) if g.rec.get("ret") == "bool" else []
                r = ("const", 1 if outs[0][1] else 0, "bool") if len(outs) == 1 else p.ret
                if not chk:
                    bad.append("a path does not test whether the key is already in the filter")
                elif chk[0][2] and (ns or r != ("const", 0, "bool")):
                    bad.append("a key already in the filter: set %d times, returns %s" % (ns, fmt(r)))
                elif not chk[0][2] and (ns != 1 or r != ("const", 1, "bool")):
                    bad.append("a key not in the filter: set %d times, returns %s" % (ns, fmt(r)))
                for e in p.events:
                    if is_bloom(e, "set") and not same_value(e.args[1], ("param", 2)):
                        bad.append("another key than the one given is set")
            ctx.check(not bad, "R14.8", "%s|set-iff-missing" % n_,
                      "a key not yet in the filter is set exactly once and reported as added; a key already there changes nothing and is reported as not added", g.where(), "; ".join(sorted(set(bad))[:3]))
    ctx.floor("R14.8", "doorkeeper operations (set / clear)", n_dk, 2)
    # threshold originates from the configured counters
    thr = None
    for n2, g in F.fns.items():
        for b in sorted(g.live_blocks()):
            for i, s in enumerate(g.blocks[b]["stmts"]):
                if s["k"] == "assign" and s["rv"]["k"] == "agg" and s["rv"].get("adt", "").endswith("TinyLFU"):
                    e = dict(g.origin_rvalue(s["rv"])[3])
                    thr = e.get("reset_counters_at")
                    ctx.check(thr == ("param", 1) and e.get(counter) == ("const", 0, "u64"), "R14.6", "%s|threshold-is-configured-counters" % n2,
                              "the ageing threshold is the configured number of counters and the access counter starts at 0", g.where(b, i), fmt(thr))
    est = [f for n, f in F.fns.items() if f.kind != "Closure" and any(t.get("rpath") in sk_est for b, t in f.calls()) and f.rec.get("ret") == "u8" and "TinyLFU" in f.locals[1]["ty"]]
    for f in est:
        bad = []
        rows_ = set()
        has_fns = {n_ for n_ in F.fns if n_.endswith("DoorKeeper::has")}
        # path-sensitive, helpers inlined (the doorkeeper's answer may travel through a private enum or helper before it
        # decides): the value returned is the sketch's estimate, plus exactly 1 iff the doorkeeper has the key
        for p in ipaths(F, f, stop=lambda n_: n_ in sk_est or n_ in has_fns, depth=3):
            sk = p.calls(sk_est)
            has = [a for a in p.atoms if a[0] == "bool" and a[1][0] == "call" and a[1][1] in has_fns]
            if len(sk) != 1 or sk[0].args[1:] != (("param", 2),):
                bad.append("the sketch is not asked once for the given key hash")
                continue
            if not has:
                # branch-free form: `sketch + u8::from(doorkeeper.has(key))` / `sketch + has(key) as u8` adds 1 iff the doorkeeper
                # has the key by arithmetic (a bool converts to 0 or 1)
                def bool_as_int(x):
                    x = strip_site(x)
                    while isinstance(x, tuple) and x and (x[0] == "cast" or (x[0] == "call" and x[1].endswith("::from") and len(x[2]) == 1)):
                        x = strip_site(x[1] if x[0] == "cast" else x[2][0])
                    return x
                r_ = strip_site(p.ret)
                base = strip_site(sk[0].res)
                ok_ = False
                if r_[0] == "binop" and r_[1] in ("Add", "AddUnchecked", "AddWithOverflow"):
                    for a_, b_ in ((r_[2], r_[3]), (r_[3], r_[2])):
                        h_ = bool_as_int(b_)
                        if strip_site(a_) == base and h_[0] == "call" and h_[1] in has_fns and len(h_[2]) >= 2 and same_value(h_[2][1], ("param", 2)):
                            ok_ = True
                if ok_:
                    rows_ |= {True, False}
                    continue
                bad.append("doorkeeper not consulted")
                continue
            if not same_value(has[0][1][2][1], ("param", 2)):
                bad.append("the doorkeeper is asked about another key")
            base = strip_site(sk[0].res)
            r_ = strip_site(p.ret)
            plus1 = canon(r_) == canon(("binop", "Add", base, ("const", 1, "u8")))
            plain = r_ == base
            rows_.add(has[0][2])
            if not ((has[0][2] and plus1) or (not has[0][2] and plain)):
                bad.append("estimate must add 1 iff the doorkeeper has the key (has=%s returns %s)" % (has[0][2], fmt(r_)[:60]))
        ctx.check(not bad and rows_ == {True, False}, "R14.7", "%s|sketch-plus-doorkeeper" % f.name,
                  "estimate = sketch estimate + (1 if the doorkeeper has the key)", f.where(), "; ".join(sorted(set(bad))))
    ctx.floor("R14.7", "TinyLFU estimate functions", len(est), 1)


def _replace(e, target, repl):
    if e == target:
        return repl
    if not isinstance(e, tuple):
        return e
    return tuple(_replace(x, target, repl) if isinstance(x, tuple) else x for x in e)


def fold_consts(e):
    """constant folding over a canon()ical expression (consts are ("const", v)), re-canonicalised"""
    if not isinstance(e, tuple) or not e:
        return e
    e = tuple(fold_consts(x) if isinstance(x, tuple) else x for x in e)
    if e[0] == "cast" and e[1][0] == "const":
        return e[1]
    if e[0] == "binop" and e[2][0] == "const" and e[3][0] == "const" and isinstance(e[2][1], int) and isinstance(e[3][1], int):
        a, b = e[2][1], e[3][1]
        ops = {"Add": a + b, "Mul": a * b, "Shl": a << b if 0 <= b < 64 else None, "Shr": a >> b if 0 <= b < 64 else None, "BitAnd": a & b, "BitOr": a | b, "BitXor": a ^ b}
        if ops.get(e[1]) is not None:
            return ("const", ops[e[1]])
    if e[0] == "binop" and e[1] in ("Shr", "Shl") and e[3] == ("const", 0):
        return e[2]
    if e[0] == "binop" and e[1] == "Mul" and ("const", 0) in (e[2], e[3]):
        return ("const", 0)
    return canon(e)


def uncast_all(e):
    if not isinstance(e, tuple) or not e:
        return e
    if e[0] == "cast":
        return uncast_all(e[1])
    return tuple(uncast_all(x) if isinstance(x, tuple) else x for x in e)


def canon(e):
    """order-insensitive canonical form for commutative operators (sites stripped)"""
    e = strip_site(e)
    if not isinstance(e, tuple) or not e:
        return e
    if e[0] == "binop" and e[1] in ("Add", "Mul", "BitAnd", "BitOr", "BitXor", "Eq", "Ne"):
        a, b = canon(e[2]), canon(e[3])
        if repr(a) > repr(b):
            a, b = b, a
        return ("binop", e[1], a, b)
    if e[0] == "const":
        return ("const", e[1])
    return tuple(canon(x) if isinstance(x, tuple) else x for x in e)
