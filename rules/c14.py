"""C14 — frequency estimates never under-count, saturate safely and age by halving (structural premises).  (DESIGN §4 C14)"""
from core import (strip_site, fmt, enum_paths, path_atoms, path_calls, mentions, subexprs, is_call_to, bool_branches,
                  closure_captures, const_of)

LEVEL = "other"
EXPLANATION = ("Premises of two bit-vector lemmas and the count-min structure, checked on MIR. Lemma A: if "
               "((b >> s) & 0xF) < 0xF with s in {0,4} then b + (1 << s) changes only that nibble, by +1. Lemma B: "
               "(b >> 1) & 0x77 halves both nibbles rounding down. Checked: the only write of the increment is "
               "+= 1 << shift under that very guard with the same index and shift; increment and read agree on "
               "index = pos/2, shift = (pos & 1) * 4 and mask 0xF; the constants; halving rewrites every byte of "
               "every row with (b >> 1) & 0x77; increment and estimate visit all rows with position "
               "(hash ^ seed[row]) % total_counters, estimate folding with minimum from u8::MAX; the doorkeeper/"
               "sketch/reset decision table. Collision behaviour, the lemmas themselves and row sizing "
               "(next_power_of_two(counters)/2: counters = 1 gives empty rows) are numeric facts not decided here.")
ASSUMPTIONS = ["Lemma A and Lemma B (two-line paper proofs in DESIGN.md)", "bloomfilter::Bloom set/check/clear behave as documented"]


def run(ctx):
    F = ctx.facts
    row_adts = [n for n, a in F.adts.items() if a["kind"] == "Struct" and len(a["variants"][0]["fields"]) == 1 and a["variants"][0]["fields"][0]["ty"].startswith("std::vec::Vec<u8")]
    ctx.floor("R14.0", "packed counter row types", len(row_adts), 1)
    if not row_adts:
        return
    row = row_adts[0]
    rshort = row.split("::")[-1]
    rfns = [f for n, f in F.fns.items() if f.kind != "Closure" and f.argc >= 1 and f.locals[1]["ty"].lstrip("&mut ").startswith(row)]
    base = ("field", ("param", 1), "0")

    def IDX(pos):
        return ("cast", ("binop", "Div", pos, ("const", 2, "u64")), "usize")

    def SHIFT(pos):
        e = ("binop", "Mul", ("binop", "BitAnd", pos, ("const", 1, "u64")), ("const", 4, "u64"))
        return e

    def norm(e):
        return strip_site(e)

    def eq_mod_comm(a, b):
        return canon(a) == canon(b)

    inc_fn = get_fn = None
    for f in rfns:
        st = [x for x in f.stores() if x[2][0] == "index" and x[2][1] == base]
        if st and f.argc == 2:
            inc_fn = f
        r = f.origin_local(0)
        if f.rec.get("ret") == "u8" and f.argc == 2 and mentions(r, lambda s: s[0] == "index" and s[1] == base):
            get_fn = f
    ctx.check(inc_fn is not None and get_fn is not None, "R14.1", "counter-accessors", "packed-counter increment and read functions found", detail="%s %s" % (inc_fn.name if inc_fn else None, get_fn.name if get_fn else None))
    if inc_fn is None or get_fn is None:
        return
    pos = ("param", 2)
    cell = ("index", base, IDX(pos))
    # ---- R14.1 ------------------------------------------------------------------------------------
    f = inc_fn
    ctx.touch(f)
    st = [x for x in f.stores() if x[2][0] == "index"]
    ok = len(st) == 1 and len([x for x in f.stores()]) == 1
    detail = ""
    if ok:
        b, i, tgt, rv, s = st[0]
        want_rv = ("binop", "Add", cell, ("binop", "Shl", ("const", 1, "u8"), SHIFT(pos)))
        guard = ("binop", "Lt", ("binop", "BitAnd", ("binop", "Shr", cell, SHIFT(pos)), ("const", 15, "u8")), ("const", 15, "u8"))
        ok = eq_mod_comm(tgt, cell) and eq_mod_comm(rv, want_rv)
        detail = "store %s = %s" % (fmt(tgt), fmt(rv))
        ge = [(bb, tt) for bb, expr, tt, ft in bool_branches(f) if eq_mod_comm(expr, guard)]
        ok = ok and len(ge) == 1 and f.edge_dominates(ge[0], b)
    ctx.check(ok, "R14.1", "%s|increment-under-saturation-guard" % f.name,
              "the only write is row[pos/2] += 1 << shift, and only when ((row[pos/2] >> shift) & 0xF) < 0xF for the same index and shift (premise of Lemma A: no carry into the neighbour, no wrap)",
              f.where(), detail)
    # ---- R14.2 ------------------------------------------------------------------------------------
    r = get_fn.origin_local(0)
    want = ("binop", "BitAnd", ("binop", "Shr", cell, SHIFT(pos)), ("const", 15, "u8"))
    ctx.check(eq_mod_comm(r, want), "R14.2", "%s|read-agrees-with-increment" % get_fn.name,
              "the read extracts (row[pos/2] >> ((pos & 1) * 4)) & 0xF: the same index, shift and mask as the increment", get_fn.where(), fmt(r))
    # ---- R14.3 ------------------------------------------------------------------------------------
    want_consts = {"BINARY_ONE": 1, "MAX_VALUE_LOWER_FOUR_BITS": 15, "SHIFT_OFFSET": 4, "HALF_COUNTERS_BITS": 0x77, "ROWS": 4}
    for k, v in want_consts.items():
        got = [c["v"] for n, c in F.consts.items() if n.endswith("::" + k)]
        if got:
            ctx.check(got[0] == v, "R14.3", "const|%s" % k, "%s == %d" % (k, v), detail=str(got))
    rows_c = [c["v"] for n, c in F.consts.items() if n.endswith("frequency_counter::ROWS")]
    ROWS = rows_c[0] if rows_c else None
    ctx.check(ROWS is not None and ROWS >= 1, "R14.3", "rows-const", "the number of rows is a positive constant", detail=str(rows_c))
    # ---- R14.4 halving --------------------------------------------------------------------------------
    halves = []
    for n, c in F.fns.items():
        if c.kind != "Closure":
            continue
        st = c.stores()
        if len(st) == 1 and st[0][2] == ("param", 2) and eq_mod_comm(st[0][3], ("binop", "BitAnd", ("binop", "Shr", ("param", 2), ("const", 1, "i32")), ("const", 0x77, "u8"))):
            halves.append(c)
    ctx.floor("R14.4", "halving closures ((b >> 1) & 0x77)", len(halves), 1)
    # every halving mask used on the row's storage keeps the low three bits of EVERY nibble of its width (a wider,
    # word-at-a-time halving is fine as long as its mask is 0x77 replicated over the whole word)
    NIBBLES = {"u8": 2, "u16": 4, "u32": 8, "u64": 16, "usize": 16, "u128": 32}
    scope = list(rfns)
    for f in rfns:
        scope += F.closures_of(f)
    nmask = 0
    for g in scope:
        for b in sorted(g.live_blocks()):
            for i, st in enumerate(g.blocks[b]["stmts"]):
                if st["k"] != "assign" or st["rv"]["k"] != "binop" or st["rv"]["op"] != "BitAnd":
                    continue
                e = g.origin_rvalue(st["rv"])
                if e[0] != "binop" or e[1] != "BitAnd":
                    continue
                x, y = e[2], e[3]
                if y[0] == "binop" and y[1] == "Shr":
                    x, y = y, x
                if not (x[0] == "binop" and x[1] == "Shr" and const_of(x[3]) == 1):
                    continue
                nmask += 1
                ty = y[2] if y[0] == "const" and len(y) > 2 else None
                want = int("7" * NIBBLES[ty], 16) if ty in NIBBLES else None
                ctx.check(y[0] == "const" and want is not None and y[1] == want, "R14.4", "%s|halving-mask-covers-every-nibble" % g.name,
                          "a halving `(x >> 1) & M` on the counter storage uses M = 0x7 in every nibble of its width, so no counter inherits its left neighbour's low bit",
                          g.where(b, i), "mask=%s" % (fmt(y),))
    ctx.floor("R14.4", "halving mask expressions", nmask, 1)
    half_fns = set()
    for c in halves:
        cc = closure_captures(F, c.name)
        p = cc[0] if cc else None
        ok = False
        form = ""
        if p is not None:
            for b, t in p.calls():
                if t["callee"].endswith("Iterator::for_each"):
                    it = p.op_origin(t["args"][0])
                    recv = it[2][0] if is_call_to(it, "iter_mut") and it[2] else None
                    while recv is not None and recv[0] == "call" and recv[1].split("::")[-1] in ("deref_mut", "as_mut_slice", "as_mut") and recv[2]:
                        recv = recv[2][0]
                    if recv is not None and strip_site(recv) == base:
                        ok, form = True, "every byte"
                    elif recv is not None and is_call_to(recv, "into_remainder") and recv[2]:
                        # word-at-a-time form: the bytes the closure sees are only the tail; the whole chunks must be
                        # rewritten in place from a halving of their own content
                        ch = recv[2][0]
                        whole = [1 for b2, t2 in p.calls() if t2["callee"].endswith("copy_from_slice")
                                 and mentions(p.op_origin(t2["args"][1]), lambda s: s[0] == "binop" and s[1] == "BitAnd" and any(z[0] == "binop" and z[1] == "Shr" for z in s[2:4]))]
                        if is_call_to(ch, "chunks_exact_mut") and ch[2] and mentions(ch[2][0], lambda s: s == base) and whole:
                            ok, form = True, "whole words + tail bytes"
            if ok:
                half_fns.add(p.name)
        ctx.check(ok, "R14.4", "%s|halve-every-byte" % c.name, "halving is applied to every byte of the row (iter_mut().for_each over the row itself%s)" % (": " + form if form else ""), c.where())
    resets = []
    for n, c in F.fns.items():
        if c.kind == "Closure" and any(t.get("rpath") in half_fns for b, t in c.calls()):
            cc = closure_captures(F, c.name)
            p = cc[0] if cc else None
            ok = False
            if p is not None:
                for b, t in p.calls():
                    if t["callee"].endswith("Iterator::for_each"):
                        rng = p.op_origin(t["args"][0])
                        ok = rng[0] == "agg" and rng[1].endswith("Range") and dict(rng[3]).get("start") == ("const", 0, "usize") and dict(rng[3]).get("end") == ("const", ROWS, "usize")
                recv = [c.op_origin(t["args"][0]) for b, t in c.calls() if t.get("rpath") in half_fns][0]
                ok = ok and recv[0] == "index" and recv[2] == ("param", 2)
            resets.append(p.name if p else n)
            ctx.check(ok, "R14.4", "%s|halve-all-rows" % n, "ageing halves every row: for each index in 0..ROWS the row at that index", c.where())
    ctx.floor("R14.4", "sketch reset functions", len(resets), 1)
    # ---- R14.5 count-min ------------------------------------------------------------------------------
    def visit_closure(target_fn):
        out = []
        for n, c in F.fns.items():
            if c.kind == "Closure":
                for b, t in c.calls():
                    if t.get("rpath") == target_fn.name:
                        out.append((c, b, t))
        return out
    inc_sites = visit_closure(inc_fn)
    get_sites = visit_closure(get_fn)
    ctx.check(len(inc_sites) == 1 and len(get_sites) == 1, "R14.5", "one-visitor-each", "one increment visitor and one estimate visitor over the rows")
    if len(inc_sites) == 1 and len(get_sites) == 1:
        (ci, bi, ti), (cg, bg, tg) = inc_sites[0], get_sites[0]

        def pos_expr(c, t):
            return canon(c.op_origin(t["args"][1])), canon(c.op_origin(t["args"][0]))
        pi, ri = pos_expr(ci, ti)
        pg, rg = pos_expr(cg, tg)
        slf = ("field", ("env",), "*self")
        want_pos = canon(("binop", "Rem", ("binop", "BitXor", ("field", ("env",), "key_hash"), ("index", ("field", slf, "seeds"), ("param", 2))), ("field", slf, "total_counters")))
        want_row = canon(("index", ("field", slf, "matrix"), ("param", 2)))
        ctx.check(pi == want_pos and pg == want_pos and ri == want_row and rg == want_row, "R14.5", "same-cells",
                  "increment and estimate address the same cell in each row: row = matrix[i], position = (hash ^ seeds[i]) % total_counters", ci.where(bi),
                  "inc %s / est %s" % (fmt(pi), fmt(pg)))
        for c, label in ((ci, "increment"), (cg, "estimate")):
            cc = closure_captures(F, c.name)
            p = cc[0] if cc else None
            ok = False
            if p is not None:
                for b, t in p.calls():
                    if t["callee"].endswith("Iterator::for_each"):
                        rng = p.op_origin(t["args"][0])
                        ok = rng[0] == "agg" and rng[1].endswith("Range") and dict(rng[3]).get("start") == ("const", 0, "usize") and dict(rng[3]).get("end") == ("const", ROWS, "usize")
                kh = cc[1].get("key_hash")
                ok = ok and kh == ("param", 2)
            ctx.check(ok, "R14.5", "%s|all-rows|%s" % (p.name if p else c.name, label), "%s visits every row 0..ROWS with the key hash it was given" % label, c.where())
        # estimate = minimum starting from u8::MAX
        cc = closure_captures(F, cg.name)
        p = cc[0]
        mn = cc[1].get("min")
        r = p.origin_local(0)
        st = cg.stores()
        okm = mn == ("const", 255, "u8") and len(st) == 1 and strip_site(st[0][3]) == strip_site(cg.origin_call(bg, tg))
        if okm:
            g = [(b, tt) for b, expr, tt, ft in bool_branches(cg) if expr[0] == "binop" and expr[1] == "Lt" and strip_site(expr[2]) == strip_site(cg.origin_call(bg, tg)) and expr[3] == ("field", ("env",), "min")]
            okm = len(g) == 1 and cg.edge_dominates(g[0], st[0][0]) and st[0][2] == ("field", ("env",), "min")
        ctx.check(okm and r == ("const", 255, "u8"), "R14.5", "%s|minimum-from-max" % p.name,
                  "the estimate is the minimum over the rows, folded from u8::MAX (count-min never under-counts a key's own increments)", p.where())
    # ---- R14.6 / R14.7 TinyLFU table ---------------------------------------------------------------------
    sk_inc = {closure_captures(F, c.name)[0].name for c, b, t in inc_sites} if inc_sites else set()
    sk_est = {closure_captures(F, c.name)[0].name for c, b, t in get_sites} if get_sites else set()
    lfu = [f for n, f in F.fns.items() if f.kind != "Closure" and any(t.get("rpath") in sk_inc for b, t in f.calls())]
    ctx.floor("R14.6", "access-recording functions (doorkeeper then sketch)", len(lfu), 1)
    for f in lfu:
        ctx.touch(f)
        bad = []
        rows_seen = set()
        counter = None
        for p in enum_paths(f):
            atoms = path_atoms(f, p)
            calls = path_calls(f, p)
            dk = [(b, t) for b, t in calls if t.get("rpath", "").endswith("add_if_missing")]
            inc = [(b, t) for b, t in calls if t.get("rpath") in sk_inc]
            rs = [(b, t) for b, t in calls if t["res"] == "item" and t.get("rlocal") and t.get("rpath") not in sk_inc and not t.get("rpath", "").endswith("add_if_missing")]
            if len(dk) != 1:
                bad.append("doorkeeper consulted %d times" % len(dk))
                continue
            added = f.origin_call(dk[0][0], dk[0][1])
            a = [x for x in atoms if x[0] == "bool" and strip_site(x[1]) == strip_site(added)]
            if not a:
                bad.append("doorkeeper result not branched on")
                continue
            if a[0][2] and inc:
                bad.append("first access (newly added to the doorkeeper) also increments the sketch")
            if not a[0][2] and len(inc) != 1:
                bad.append("repeated access increments the sketch %d times" % len(inc))
            if inc and f.op_origin(inc[0][1]["args"][1]) != ("param", 2):
                bad.append("sketch incremented for a different hash")
            bumps = [x for x in f.stores() if x[0] in p and x[2][0] == "field" and x[2][1] == ("param", 1) and x[3][0] == "binop" and x[3][1] == "Add" and ("const", 1, "u64") in (x[3][2], x[3][3])]
            if len(bumps) != 1:
                bad.append("access counter bumped %d times on a path" % len(bumps))
                continue
            counter = bumps[0][2][2]
            th = [x for x in atoms if x[0] == "bool" and x[1][0] == "binop" and x[1][1] == "Le" and x[1][3] == ("field", ("param", 1), counter)]
            if not th:
                bad.append("threshold test counter >= reset_at missing")
                continue
            rows_seen.add((a[0][2], th[0][2]))
            if th[0][2] != (len(rs) == 1):
                bad.append("reset must run iff the counter reached the threshold")
            if th[0][2] and rs and p.index(rs[0][0]) < p.index(bumps[0][0]):
                bad.append("reset before counting the access")
        ctx.check(not bad and len(rows_seen) == 4, "R14.6", "%s|doorkeeper-sketch-reset-table" % f.name,
                  "sketch incremented iff the doorkeeper already had the key; access counter += 1 on every path; counter >= threshold <=> reset (4 rows)", f.where(), "; ".join(sorted(set(bad))[:3]))
        # the reset: zero counter, halve sketch, clear doorkeeper
        for b, t in f.calls():
            g = F.fns.get(t.get("rpath") or "")
            if g is not None and t.get("rpath") not in sk_inc and not t.get("rpath", "").endswith("add_if_missing"):
                z = [x for x in g.stores() if x[2] == ("field", ("param", 1), counter) and x[3] == ("const", 0, "u64")]
                hv = [1 for bb, tt in g.calls() if tt.get("rpath") in set(resets)]
                cl = [1 for bb, tt in g.calls() if tt.get("rpath", "").endswith("DoorKeeper::clear")]
                ctx.check(bool(z) and bool(hv) and bool(cl), "R14.6", "%s|reset-ages-everything" % g.name,
                          "ageing zeroes the access counter, halves the sketch and clears the first-access filter", g.where())
        # threshold originates from the configured counters
        thr = None
        for n2, g in F.fns.items():
            for b in sorted(g.live_blocks()):
                for i, s in enumerate(g.blocks[b]["stmts"]):
                    if s["k"] == "assign" and s["rv"]["k"] == "agg" and s["rv"].get("adt", "").endswith("TinyLFU"):
                        e = dict(g.origin_rvalue(s["rv"])[3])
                        thr = e.get("reset_counters_at")
                        ctx.check(thr == ("param", 1) and e.get(counter) == ("const", 0, "u64"), "R14.6", "%s|threshold-is-configured-counters" % n2,
                                  "the ageing threshold is the configured number of counters and the access counter starts at 0", g.where(b, i), fmt(thr))
    est = [f for n, f in F.fns.items() if f.kind != "Closure" and any(t.get("rpath") in sk_est for b, t in f.calls()) and f.rec.get("ret") == "u8" and "TinyLFU" in f.locals[1]["ty"]]
    for f in est:
        bad = []
        for p in enum_paths(f):
            atoms = path_atoms(f, p)
            has = [a for a in atoms if a[0] == "bool" and is_call_to(a[1], "DoorKeeper::has")]
            adds = [x for x in f.stores() if False]
            # the returned local is the sketch estimate, +1 iff the doorkeeper has the key
            plus = [1 for b in p for s in f.blocks[b]["stmts"] if s["k"] == "assign" and s["rv"]["k"] == "binop" and s["rv"]["op"].startswith("Add")]
            if not has:
                bad.append("doorkeeper not consulted")
            elif has[0][2] != (len(plus) == 1):
                bad.append("estimate must add 1 iff the doorkeeper has the key")
        r = f.origin_local(0)
        ctx.check(not bad and mentions(r, lambda s: s[0] == "call" and s[1] in sk_est), "R14.7", "%s|sketch-plus-doorkeeper" % f.name,
                  "estimate = sketch estimate + (1 if the doorkeeper has the key)", f.where(), "; ".join(bad))
    ctx.floor("R14.7", "TinyLFU estimate functions", len(est), 1)


def canon(e):
    """order-insensitive canonical form for commutative operators (sites stripped)"""
    e = strip_site(e)
    if not isinstance(e, tuple) or not e:
        return e
    if e[0] == "binop" and e[1] in ("Add", "Mul", "BitAnd", "BitOr", "BitXor", "Eq", "Ne"):
        a, b = canon(e[2]), canon(e[3])
        if repr(a) > repr(b):
            a, b = b, a
        return ("binop", e[1], a, b)
    if e[0] == "const":
        return ("const", e[1])
    return tuple(canon(x) if isinstance(x, tuple) else x for x in e)
